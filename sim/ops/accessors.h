// Group-specific accessors and setters (x(), angle(), quat(), translation(), lin(), ang(), ...),
// reached through whatever operand kind (owning, Map, Map<const>) the executor binds.
#ifndef VSIM_ACCESSORS_H
#define VSIM_ACCESSORS_H
#include <manif/manif.h>
#include <cstring>
#include "optypes.h"

namespace vsim {

struct Collector {
  Out& out;
  explicit Collector(Out& o) : out(o) { out.nv = 0; }
  void s(double x) { if (out.nv < MAXV) out.v[out.nv++] = x; }
  template <class D> void m(const Eigen::MatrixBase<D>& a) {
    for (int c = 0; c < a.cols(); ++c) for (int r = 0; r < a.rows(); ++r) s((double)a(r, c));
  }
};

template <class X, class Y> inline bool bits_eq(const Eigen::MatrixBase<X>& x, const Eigen::MatrixBase<Y>& y) {
  typedef typename X::Scalar S;
  if (x.rows() != y.rows() || x.cols() != y.cols()) return false;
  for (int c = 0; c < x.cols(); ++c)
    for (int r = 0; r < x.rows(); ++r) { const S u = x(r, c), v = y(r, c); if (std::memcmp(&u, &v, sizeof(S)) != 0) return false; }
  return true;
}

// component constructors: an owning element rebuilt from the parts of `a` (whatever kind `a` is) ----------------------
// Variants that pass through a user-side conversion (angle-axis, Euler angles, rotation matrix) start from the
// normalised quaternion: those constructors take user data as it is (they only assert), and a rotation matrix
// computed from a quaternion that is 0.9 eps off the unit sphere is 1.8 eps off — user data the library is right
// to refuse.  The variants that copy coefficients use the stored parts unchanged.
template <class S> inline Eigen::Matrix<S, 3, 1> rpy_of(const Eigen::Quaternion<S>& q) {
  const Eigen::Matrix<S, 3, 1> e = q.toRotationMatrix().eulerAngles(2, 1, 0);   // yaw, pitch, roll
  return Eigen::Matrix<S, 3, 1>(e(2), e(1), e(0));
}
template <class S> inline Eigen::Transform<S, 3, Eigen::Isometry> iso3_of(const Eigen::Matrix<S, 3, 1>& t, const Eigen::Quaternion<S>& q) {
  Eigen::Transform<S, 3, Eigen::Isometry> h = Eigen::Transform<S, 3, Eigen::Isometry>::Identity();
  h.linear() = q.toRotationMatrix(); h.translation() = t; return h;
}

// ---- elements: const accessors -------------------------------------------------------------------------------
// held(a, b, acc): accessor results of a bound to const references, the same accessors then used on b; true when the
// held results are unchanged afterwards.
template <class G> struct Acc {   // default: nothing group specific
  template <class A> static bool read(const A&, Collector&) { return false; }
  template <class A, class B> static bool held(const A&, const B&, double&) { return true; }
  template <class A> static bool ctor(const A&, int, G&) { return false; }
  template <class A, class B> static bool set_from(A&, const B&, int) { return false; }
};
template <class S> struct Acc<manif::SO2<S> > {
  template <class A> static bool read(const A& a, Collector& c) { c.s(a.real()); c.s(a.imag()); c.s(a.angle()); c.m(a.rotation()); c.m(a.transform()); return true; }
  template <class A, class B> static bool held(const A&, const B&, double&) { return true; }
  template <class A> static bool ctor(const A& a, int how, manif::SO2<S>& r) {
    if (how % 2 == 0) r = manif::SO2<S>(a.real(), a.imag()); else r = manif::SO2<S>(a.angle());
    return true;
  }
  template <class A, class B> static bool set_from(A&, const B&, int) { return false; }
};
template <class S> struct Acc<manif::SE2<S> > {
  template <class A> static bool read(const A& a, Collector& c) {
    c.s(a.x()); c.s(a.y()); c.s(a.real()); c.s(a.imag()); c.s(a.angle()); c.m(a.translation()); c.m(a.rotation());
    c.m(a.isometry().matrix()); c.m(a.transform()); return true;
  }
  template <class A, class B> static bool held(const A& a, const B& b, double& acc) {
    const auto& t = a.translation(); const auto& iso = a.isometry();
    const Eigen::Matrix<S, 2, 1> t0 = t; const Eigen::Matrix<S, 3, 3> i0 = iso.matrix();
    acc += (double)b.translation()(0) + (double)b.isometry().matrix()(0, 0);
    return bits_eq(t, t0) && bits_eq(iso.matrix(), i0);
  }
  template <class A> static bool ctor(const A& a, int how, manif::SE2<S>& r) {
    typedef manif::SE2<S> G;
    const Eigen::Matrix<S, 2, 1> t = a.translation();
    switch (how % 5) {
      case 0: r = G(a.x(), a.y(), a.real(), a.imag()); break;
      case 1: r = G(a.x(), a.y(), a.angle()); break;
      case 2: r = G(t, std::complex<S>(a.real(), a.imag())); break;
      case 3: r = G(a.x(), a.y(), std::complex<S>(a.real(), a.imag())); break;
      default: {
        Eigen::Transform<S, 2, Eigen::Isometry> h = Eigen::Transform<S, 2, Eigen::Isometry>::Identity();
        h.linear() = Eigen::Rotation2D<S>(a.angle()).toRotationMatrix(); h.translation() = t;
        r = G(h);
      } break;
    }
    return true;
  }
  template <class A, class B> static bool set_from(A&, const B&, int) { return false; }
};
template <class S> struct Acc<manif::SO3<S> > {
  template <class A> static bool read(const A& a, Collector& c) {
    c.s(a.x()); c.s(a.y()); c.s(a.z()); c.s(a.w()); c.m(a.quat().coeffs()); c.m(a.rotation()); c.m(a.transform()); return true;
  }
  template <class A, class B> static bool held(const A& a, const B& b, double& acc) {
    const auto& q = a.quat();
    const Eigen::Matrix<S, 4, 1> q0 = q.coeffs();
    acc += (double)b.quat().coeffs()(0);
    return bits_eq(q.coeffs(), q0);
  }
  template <class A> static bool ctor(const A& a, int how, manif::SO3<S>& r) {
    typedef manif::SO3<S> G;
    const Eigen::Quaternion<S> q = a.quat();
    switch (how % 4) {
      case 0: r = G(q); break;
      case 1: r = G(a.x(), a.y(), a.z(), a.w()); break;
      case 2: r = G(Eigen::AngleAxis<S>(q.normalized())); break;
      default: { const Eigen::Matrix<S, 3, 1> e = rpy_of(q.normalized()); r = G(e(0), e(1), e(2)); } break;
    }
    return true;
  }
  template <class A, class B> static bool set_from(A& a, const B& b, int how) {
    if (how & 1) a.quat(b.quat()); else { const Eigen::Matrix<S, 4, 1> q = b.coeffs(); a.quat(q); }
    return true;
  }
};
template <class S> struct Acc<manif::SE3<S> > {
  template <class A> static bool read(const A& a, Collector& c) {
    c.s(a.x()); c.s(a.y()); c.s(a.z()); c.m(a.quat().coeffs()); c.m(a.translation()); c.m(a.rotation());
    c.m(a.isometry().matrix()); c.m(a.transform()); return true;
  }
  template <class A, class B> static bool held(const A& a, const B& b, double& acc) {
    const auto& q = a.quat(); const auto& t = a.translation(); const auto& iso = a.isometry();
    const Eigen::Matrix<S, 4, 1> q0 = q.coeffs(); const Eigen::Matrix<S, 3, 1> t0 = t; const Eigen::Matrix<S, 4, 4> i0 = iso.matrix();
    acc += (double)b.quat().coeffs()(0) + (double)b.translation()(0) + (double)b.isometry().matrix()(0, 0);
    return bits_eq(q.coeffs(), q0) && bits_eq(t, t0) && bits_eq(iso.matrix(), i0);
  }
  template <class A> static bool ctor(const A& a, int how, manif::SE3<S>& r) {
    typedef manif::SE3<S> G;
    const Eigen::Quaternion<S> q = a.quat();
    const Eigen::Matrix<S, 3, 1> t = a.translation();
    switch (how % 5) {
      case 0: r = G(t, q); break;
      case 1: r = G(t, Eigen::AngleAxis<S>(q.normalized())); break;
      case 2: r = G(t, manif::SO3<S>(q)); break;
      case 3: { const Eigen::Matrix<S, 3, 1> e = rpy_of(q.normalized()); r = G(a.x(), a.y(), a.z(), e(0), e(1), e(2)); } break;
      default: r = G(iso3_of(t, q.normalized())); break;
    }
    return true;
  }
  template <class A, class B> static bool set_from(A& a, const B& b, int how) {
    switch (how % 3) {
      case 0: a.quat(b.quat()); break;
      case 1: { const Eigen::Matrix<S, 4, 1> q = b.coeffs().template tail<4>(); a.quat(q); } break;
      default: { const manif::SO3<S> r(b.quat()); a.quat(r); } break;
    }
    a.translation(b.translation());
    return true;
  }
};
template <class S> struct Acc<manif::SE_2_3<S> > {
  template <class A> static bool read(const A& a, Collector& c) {
    c.s(a.x()); c.s(a.y()); c.s(a.z()); c.s(a.vx()); c.s(a.vy()); c.s(a.vz()); c.m(a.quat().coeffs()); c.m(a.translation());
    c.m(a.linearVelocity()); c.m(a.rotation()); c.m(a.isometry()); c.m(a.transform()); return true;
  }
  template <class A, class B> static bool held(const A& a, const B& b, double& acc) {
    const auto& q = a.quat(); const auto& t = a.translation(); const auto& v = a.linearVelocity(); const auto& iso = a.isometry();
    const Eigen::Matrix<S, 4, 1> q0 = q.coeffs(); const Eigen::Matrix<S, 3, 1> t0 = t, v0 = v;
    const Eigen::Matrix<S, Eigen::Dynamic, Eigen::Dynamic> i0 = iso;
    acc += (double)b.quat().coeffs()(0) + (double)b.translation()(0) + (double)b.linearVelocity()(0) + (double)b.isometry()(0, 0);
    return bits_eq(q.coeffs(), q0) && bits_eq(t, t0) && bits_eq(v, v0) && bits_eq(iso, i0);
  }
  template <class A> static bool ctor(const A& a, int how, manif::SE_2_3<S>& r) {
    typedef manif::SE_2_3<S> G;
    const Eigen::Quaternion<S> q = a.quat();
    const Eigen::Matrix<S, 3, 1> t = a.translation(), v = a.linearVelocity();
    switch (how % 5) {
      case 0: r = G(t, q, v); break;
      case 1: r = G(t, Eigen::AngleAxis<S>(q.normalized()), v); break;
      case 2: r = G(t, manif::SO3<S>(q), v); break;
      case 3: { const Eigen::Matrix<S, 3, 1> e = rpy_of(q.normalized()); r = G(a.x(), a.y(), a.z(), e(0), e(1), e(2), a.vx(), a.vy(), a.vz()); } break;
      default: r = G(iso3_of(t, q.normalized()), v); break;
    }
    return true;
  }
  template <class A, class B> static bool set_from(A&, const B&, int) { return false; }
};
template <class S> struct Acc<manif::SGal3<S> > {
  template <class A> static bool read(const A& a, Collector& c) {
    c.s(a.x()); c.s(a.y()); c.s(a.z()); c.s(a.vx()); c.s(a.vy()); c.s(a.vz()); c.s(a.t()); c.m(a.quat().coeffs()); c.m(a.translation());
    c.m(a.linearVelocity()); c.m(a.rotation()); c.m(a.isometry()); c.m(a.transform()); return true;
  }
  template <class A, class B> static bool held(const A& a, const B& b, double& acc) {
    const auto& q = a.quat(); const auto& t = a.translation(); const auto& v = a.linearVelocity(); const auto& iso = a.isometry();
    const Eigen::Matrix<S, 4, 1> q0 = q.coeffs(); const Eigen::Matrix<S, 3, 1> t0 = t, v0 = v;
    const Eigen::Matrix<S, Eigen::Dynamic, Eigen::Dynamic> i0 = iso;
    acc += (double)b.quat().coeffs()(0) + (double)b.translation()(0) + (double)b.linearVelocity()(0) + (double)b.isometry()(0, 0);
    return bits_eq(q.coeffs(), q0) && bits_eq(t, t0) && bits_eq(v, v0) && bits_eq(iso, i0);
  }
  template <class A> static bool ctor(const A& a, int how, manif::SGal3<S>& r) {
    typedef manif::SGal3<S> G;
    const Eigen::Quaternion<S> q = a.quat();
    const Eigen::Matrix<S, 3, 1> t = a.translation(), v = a.linearVelocity();
    switch (how % 5) {
      case 0: r = G(t, q, v, a.t()); break;
      case 1: r = G(t, Eigen::AngleAxis<S>(q.normalized()), v, a.t()); break;
      case 2: r = G(t, manif::SO3<S>(q), v, a.t()); break;
      case 3: { const Eigen::Matrix<S, 3, 1> e = rpy_of(q.normalized()); r = G(a.x(), a.y(), a.z(), e(0), e(1), e(2), a.vx(), a.vy(), a.vz(), a.t()); } break;
      default: r = G(iso3_of(t, q.normalized()), v, a.t()); break;
    }
    return true;
  }
  template <class A, class B> static bool set_from(A&, const B&, int) { return false; }
};

// Bundle: every element view (first, second, last are enough for the layouts in use; BundleSize >= 3)
template <class S, template <typename> class... T> struct Acc<manif::Bundle<S, T...> > {
  typedef manif::Bundle<S, T...> B;
  enum { L = (int)sizeof...(T) - 1 };
  template <class A> static bool read(const A& a, Collector& c) {
    const typename B::template MapConstElement<0> e0(a.template element<0>());
    const typename B::template MapConstElement<1> e1(a.template element<1>());
    const typename B::template MapConstElement<L> el(a.template element<L>());
    c.m(e0.coeffs()); c.m(e1.coeffs()); c.m(el.coeffs());
    c.m(e0.inverse().coeffs()); c.m(el.log().coeffs());
    return true;
  }
  template <class A, class BB> static bool held(const A&, const BB&, double&) { return true; }
  template <class A> static bool ctor(const A&, int, B&) { return false; }
  template <class A, class BB> static bool set_from(A&, const BB&, int) { return false; }   // element writes: OP_M_SUBVIEW_WRITE
};

// ---- tangents ---------------------------------------------------------------------------------------------------
template <class T> struct TAcc {
  template <class A> static bool read(const A&, Collector&) { return false; }
  template <class A, class B> static bool set_from(A&, const B&) { return false; }
};
template <class S> struct TAcc<manif::SO2Tangent<S> > {
  template <class A> static bool read(const A& a, Collector& c) { c.s(a.angle()); return true; }
  template <class A, class B> static bool set_from(A&, const B&) { return false; }
};
template <class S> struct TAcc<manif::SE2Tangent<S> > {
  template <class A> static bool read(const A& a, Collector& c) { c.s(a.x()); c.s(a.y()); c.s(a.angle()); return true; }
  template <class A, class B> static bool set_from(A&, const B&) { return false; }
};
template <class S> struct TAcc<manif::SO3Tangent<S> > {
  template <class A> static bool read(const A& a, Collector& c) { c.s(a.x()); c.s(a.y()); c.s(a.z()); c.m(a.ang()); return true; }
  template <class A, class B> static bool set_from(A& a, const B& b) { a.ang() = b.ang(); return true; }
};
template <class S> struct TAcc<manif::SE3Tangent<S> > {
  template <class A> static bool read(const A& a, Collector& c) { c.m(a.lin()); c.m(a.ang()); return true; }
  template <class A, class B> static bool set_from(A& a, const B& b) { a.lin() = b.lin(); a.ang() = b.ang(); return true; }
};
template <class S> struct TAcc<manif::SE_2_3Tangent<S> > {
  template <class A> static bool read(const A& a, Collector& c) { c.m(a.lin()); c.m(a.ang()); c.m(a.lin2()); return true; }
  template <class A, class B> static bool set_from(A& a, const B& b) { a.lin() = b.lin(); a.ang() = b.ang(); a.lin2() = b.lin2(); return true; }
};
template <class S> struct TAcc<manif::SGal3Tangent<S> > {
  template <class A> static bool read(const A& a, Collector& c) { c.m(a.lin()); c.m(a.lin2()); c.m(a.ang()); c.s(a.t()); return true; }
  template <class A, class B> static bool set_from(A& a, const B& b) {
    a.lin() = b.lin(); a.lin2() = b.lin2(); a.ang() = b.ang(); a.coeffs()(9) = b.t(); return true;
  }
};

template <class S, template <typename> class... T> struct TAcc<manif::BundleTangent<S, T...> > {
  typedef manif::BundleTangent<S, T...> BT;
  enum { L = (int)sizeof...(T) - 1 };
  template <class A> static bool read(const A& a, Collector& c) {
    const typename BT::template MapConstElement<0> e0(a.template element<0>());
    const typename BT::template MapConstElement<1> e1(a.template element<1>());
    const typename BT::template MapConstElement<L> el(a.template element<L>());
    c.m(e0.coeffs()); c.m(e1.coeffs()); c.m(el.coeffs()); c.m(e1.hat());
    return true;
  }
  template <class A, class BB> static bool set_from(A& a, const BB& b) {
    // element-wise copy through the mutable element views: a becomes b
    { const typename BT::template MapConstElement<0> s0(b.template element<0>()); typename BT::template MapElement<0> d0(a.template element<0>()); d0 = s0; }
    { const typename BT::template MapConstElement<1> s1(b.template element<1>()); typename BT::template MapElement<1> d1(a.template element<1>()); d1 = s1; }
    copy_rest(a, b, std::integral_constant<bool, (L >= 2)>());
    return true;
  }
  template <class A, class BB> static void copy_rest(A& a, const BB& b, std::true_type) {
    { const typename BT::template MapConstElement<L> sl(b.template element<L>()); typename BT::template MapElement<L> dl(a.template element<L>()); dl = sl; }
    copy_mid(a, b, std::integral_constant<bool, (L >= 3)>());
  }
  template <class A, class BB> static void copy_rest(A&, const BB&, std::false_type) {}
  template <class A, class BB> static void copy_mid(A& a, const BB& b, std::true_type) {
    const typename BT::template MapConstElement<2> s2(b.template element<2>()); typename BT::template MapElement<2> d2(a.template element<2>()); d2 = s2;
  }
  template <class A, class BB> static void copy_mid(A&, const BB&, std::false_type) {}
};

}  // namespace vsim
#endif
