#ifndef VSIM_CHECKS_H
#define VSIM_CHECKS_H
#include "common.h"

namespace vsim {

struct RunOpts {
  std::string check;      // C08 C03 C09 C10 C14
  uint64_t seed;          // run seed
  bool thorough;
  const Plan* replay;     // non-null: execute this plan instead of generating one
  Plan* record;           // non-null: record the executed plan here
  std::string events_path;  // optional: dump event log / first-use order here
  std::string mode;       // check specific sub-mode
  bool dry;               // generate (and record) the plan, do not execute it
  std::string emit_path;  // where main() will write *record (needed by paths that must _exit)
  RunOpts() : seed(1), thorough(false), replay(nullptr), record(nullptr), dry(false) {}
};

// Each returns through Result; never throws.
void run_c08(const RunOpts& o, Result& res);   // also C03 (o.check selects the invariant set)
void run_c14(const RunOpts& o, Result& res);
void run_c09(const RunOpts& o, Result& res);
void run_c10(const RunOpts& o, Result& res);

const char* flavour_name();

}  // namespace vsim
#endif
