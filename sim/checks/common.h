// Generic (manif-free) machinery shared by the checks: plans, steps, state
// handling, element generation from the layout descriptors, result reporting.
#ifndef VSIM_COMMON_H
#define VSIM_COMMON_H
#include <cstdint>
#include <cstdio>
#include <string>
#include <vector>
#include <map>
#include "../core/prng.h"
#include "../core/digest.h"
#include "../ops/optypes.h"

namespace vsim {

// ---------------------------------------------------------------------------
// plan
// ---------------------------------------------------------------------------
enum StepKind : uint8_t { ST_SETE = 0, ST_SETT, ST_SETP, ST_SETVEC, ST_OP, ST_NEG, ST_MARK,
                          ST_USERW /* the user writes an element buffer directly, in the middle of a history */ };

struct Step {
  StepKind kind;
  uint8_t group;        // index into Plan::groups
  int slot;             // SET*: slot; NEG: slot (negate unit blocks in place = rerepresent)
  int dst;              // OP: where the value goes (-1 discard). element or tangent slot by result type
  int rep;              // repeat count
  std::vector<double> vals;   // SET*: data; SETVEC: slots as doubles
  OpRec op;
  Step() : kind(ST_OP), group(0), slot(0), dst(-1), rep(1) { op = OpRec(); }
};

struct Plan {
  std::string check;
  uint64_t seed;
  std::map<std::string, std::string> cfg;
  std::vector<std::string> groups;       // group names
  std::vector<Step> steps;
  std::vector<int> schedule;             // replay schedule (tids); empty = from policy
  std::vector<std::vector<uint64_t> > preempts;  // per thread
  bool has_schedule;
  Plan() : seed(1), has_schedule(false) {}
  long cfg_int(const char* k, long dflt) const;
  double cfg_dbl(const char* k, double dflt) const;
  void set(const char* k, long v);
  void setd(const char* k, double v);
};

void plan_write(const Plan& p, FILE* f);
bool plan_read(Plan& p, const char* path, std::string& err);
std::string step_to_string(const Plan& p, const Step& s);

// ---------------------------------------------------------------------------
// result line
// ---------------------------------------------------------------------------
struct Result {
  std::string status;     // "ok" or "violation"
  std::string oracle;     // which oracle fired
  std::string cls;        // violation class key (oracle + group + op + symbol), used to restrict shrinking
  std::string detail;     // human readable
  long step_index;        // failing step in plan
  std::map<std::string, double> num;   // counters / probes / fault counts
  std::map<std::string, std::string> str;
  Result() : status("ok"), step_index(-1) {}
  void add(const char* k, double v) { num[k] += v; }
  void setmax(const char* k, double v) { if (!num.count(k) || num[k] < v) num[k] = v; }
  void fail(const char* oracle_, const std::string& cls_, const std::string& detail_, long step);
  bool failed() const { return status != "ok"; }
  void print(FILE* f) const;
};

// ---------------------------------------------------------------------------
// simulation context: one state per group of the plan
// ---------------------------------------------------------------------------
struct GroupCtx {
  const GroupVT* vt;
  void* st;
  GroupCtx() : vt(nullptr), st(nullptr) {}
};

struct Ctx {
  std::vector<GroupCtx> g;
  bool init(const Plan& p, std::string& err);   // default (internally allocated) buffers
  void destroy();
};

// element / tangent generation from layout -----------------------------------
struct ElemSpec {
  double angle;        // rotation angle (rad), <0: random in [0,pi]
  bool neg_hemisphere; // represent quaternion blocks with w<0
  double lin_lo, lin_hi;  // log-uniform magnitude range of linear parts (0,0 => zeros)
  double norm_scale;      // rotation blocks are scaled by this (1 +- 0.9 eps = still accepted by the library)
  int exact;              // 1: half turn about a coordinate axis with w exactly +0 / -0 ((-1, +-0) for complex blocks)
                          // 2: quarter turn about a coordinate axis (s,0,0,s), s = sqrt(1/2) rounded ((0, 1) for complex blocks)
  ElemSpec() : angle(-1), neg_hemisphere(false), lin_lo(1e-3), lin_hi(10), norm_scale(1.0), exact(0) {}
};
void gen_elem(const GroupVT* vt, Rng& r, const ElemSpec& sp, double* c);
// seeded choice of the corner cases every pool should contain: tiny angles in both hemispheres, angle near pi,
// rotation norm at the edge of the acceptance threshold (takes the renormalisation branch of compose)
void spice_elem_spec(const GroupVT* vt, Rng& r, ElemSpec& sp);
void gen_unit_axis(Rng& r, double* u3);
// a neighbour of `in`: every rotation block turned by dtheta about a random axis, translation-like parts moved by up to dlin
void perturb_elem(const GroupVT* vt, Rng& r, const double* in, double dtheta, double dlin, double* out);
// tangent: angular blocks get angle*axis (axis random or given), linear parts log-uniform
struct TanSpec {
  double angle;        // <0: log-uniform in [1e-12, pi]
  double lin_lo, lin_hi;
  const double* axis;  // optional fixed axis (3) used for every 3-d angular block
  double sign1;        // sign for 1-d angular blocks
  TanSpec() : angle(-1), lin_lo(1e-3), lin_hi(10), axis(nullptr), sign1(1) {}
};
void gen_tan(const GroupVT* vt, Rng& r, const TanSpec& sp, double* c);
void gen_pt(const GroupVT* vt, Rng& r, double lo, double hi, double* c);
// round to the group's scalar type (so that plan values are exactly representable)
double round_scalar(const GroupVT* vt, double x);

// validity of a coefficient vector ----------------------------------------------
struct Validity {
  bool finite;
  double max_unit_dev;   // max | ||block|| - 1 |
  double max_lin;        // max |linear coefficient|
};
Validity check_validity(const GroupVT* vt, const double* c);
bool all_finite(const double* v, int n);
double max_abs(const double* v, int n);

// is the value of this op an element / a tangent / something else
enum ValKind { VK_ELEM, VK_TAN, VK_OTHER };
ValKind op_value_kind(int op);

const char* status_name(int st);

Step make_set(StepKind k, int group, int slot, const double* v, int n);
Step make_op(int group, int op, int a, int b, int dst);

}  // namespace vsim
#endif
