#!/usr/bin/env python3
"""Writes seeded/<id>/meta.json from the hand-written descriptions below plus the machine-written
verify.json (independent confirmation: applies, repo tests pass, demo fails with / passes without) and
detect.json (outcome of the matching quick check against the change)."""
import json
import os

VERIF = os.path.dirname(os.path.dirname(os.path.abspath(__file__)))

DESC = {
 "C03-so3-log-small-angle-hemisphere": ("reverse of fix 5684019: SO3::log small-angle branch uses coefficient +2 regardless of the sign of w",
     "a unit quaternion with w<0 and |vec|^2 <= eps, reachable only by composition (e.g. exp(3x)*exp((2pi-3-2e-8)x)) or re-representation", "author (defect found by check C03)"),
 "C08-bundle-cast-raw-coefficients": ("reverse of fix f4d7595: Bundle::cast<>() falls back to the raw coefficient cast",
     "a Bundle element cast float->double (also the second leg of a double->float->double round trip)", "author (defect found by check C08)"),
 "C03-c03a1": ("SO3 log: series fast path for eps<|v|^2<1e-4 that is only valid for w>0", "w<0 and rotation angle 2pi-eps with 3e-7<eps<2e-2 (composition only)", "sub-agent seed-c03a, round 1"),
 "C03-c03a2": ("SO3Tangent::ljacinv falls back to first order when |sin theta|<=eps_sqrt", "rotation angle within 1.5e-7 of pi and a translation off the axis (SE3, SE_2_3, SGal3)", "sub-agent seed-c03a, round 1"),
 "C03-c03a3": ("SE2 log small-angle branch simplified to V^-1 = I", "0<|theta|<1.5e-7 with a translation that is not tiny, SE2 only", "sub-agent seed-c03a, round 1"),
 "C03-c03a4": ("SO3 log half angle via asin(|v|) instead of atan2(|v|,w)", "rotation angle within ~1e-7 of pi, typically reached by composing two rotations adding to a half turn", "sub-agent seed-c03a, round 1"),
 "C08-c08a1": ("SO3Tangent::exp small-angle threshold widened from eps to eps_sqrt", "a tangent with rotation angle in 4e-7..3.9e-4 (float 1e-2..5.9e-2); the branch returns the un-normalised (v/2,1)", "sub-agent seed-c08a, round 1"),
 "C08-c08a2": ("SE2 compose: misplaced parenthesis makes the renormalisation one-sided", "long pure compose / plus histories on SE2 (norm drifts downwards without bound)", "sub-agent seed-c08a, round 1"),
 "C08-c08a3": ("two cooperating sites: first-order approxSqrtInv + SO3/SE3 cast renormalising with it", "cast<double>() of a float SO3/SE3 element that has single-precision history (squared norm off by >2.4e-7)", "sub-agent seed-c08a, round 1"),
 "C08-c08a4": ("SE_2_3 acceptance check (MANIF_ASSERT) compares the squared norm", "assertion-enabled build, an SE_2_3 element whose squared norm sits at exactly 1+-eps", "sub-agent seed-c08a, round 1"),
 "C09-c09a1": ("generic rminus negates the tangent in place when J_t_mb is requested and restores the sign only inside if(J_t_ma)", "exactly the output subset {second Jacobian}", "sub-agent seed-c09a, round 1"),
 "C09-c09a2": ("Bundle compose zeroes the Jacobian through a stride-less Eigen::Map of J->data()", "a Bundle, and the Jacobian bound to a block of a larger matrix", "sub-agent seed-c09a, round 1"),
 "C09-c09a3": ("thread_local cache of the trig factor of the SO3 log Jacobian, not invalidated by the small-angle branch", "log(J) on a large angle, then log(J) on identity / tiny rotation of the same operand type, then the first call again", "sub-agent seed-c09a, round 1"),
 "C09-c09a4": ("in-place SE2 operator*= that re-reads the right operand after writing the destination", "X *= X or two views over one buffer, SE2 only", "sub-agent seed-c09a, round 1"),
 "C10-c10a1": ("MANIF_GROUP_MAP_ASSIGN_OP: operator=(Map&&) re-seats the view (placement new) instead of copying coefficients", "Map<G> = std::move(Map<G>) of the same group type", "sub-agent seed-c10a, round 1"),
 "C10-c10a2": ("Map<const SGal3> owns a copy of the 11 coefficients", "SGal3, const view; buffer modified after the view was created, or data() compared with the buffer address", "sub-agent seed-c10a, round 1"),
 "C10-c10a3": ("SE_2_3 Map declared Aligned16 when RepSize*sizeof(Scalar) is a multiple of 16", "SE_2_3 double, user buffer not 16-byte aligned (segfault / Eigen alignment assert)", "sub-agent seed-c10a, round 1"),
 "C10-c10a4": ("mutable Map<SE3> constructor normalises the user buffer", "SE3, mutable view, exact byte comparison of the buffer / results", "sub-agent seed-c10a, round 1"),
 "C14-c14a1": ("Bundle Jacobians / adjoint assembled in a function-local static matrix", "a Bundle, two threads inside the same getter at once", "sub-agent seed-c14a, round 1"),
 "C14-c14a2": ("SE3 rotation matrix memoised in mutable members, key published before the matrix", "owning SE3, first const use of an element happening concurrently", "sub-agent seed-c14a, round 1"),
 "C14-c14a3": ("InnerWeights lazily initialised behind an atomic flag with non-atomic re-initialisation", "very first use of a tangent type, two threads staggered by less than one initialisation", "sub-agent seed-c14a, round 1"),
 "C14-c14b1": ("InnerWeights memo claimed under a mutex, filled after releasing it (race-free)", "two threads whose first InnerWeights-family call overlaps: the second returns a zero matrix", "sub-agent seed-c14b, round 1"),
 "C14-c14b2": ("SGal3 rjac/ljac single-entry memos guarded by hand-written spin locks taken in opposite orders", "SGal3, two threads missing both memos at the same moment: both spin for ever", "sub-agent seed-c14b, round 1"),
 "C14-c14b3": ("singleton memo of the last rminus in interpolate; holds()/get() lock individually (race-free)", "threads concurrently interpolating different pairs of the same group type", "sub-agent seed-c14b, round 1"),
}


def main():
    sd = os.path.join(VERIF, "seeded")
    for ident in sorted(os.listdir(sd)):
        d = os.path.join(sd, ident)
        if not os.path.isdir(d):
            continue
        what, needs, author = DESC.get(ident, ("", "", ""))
        ver = json.load(open(os.path.join(d, "verify.json"))) if os.path.exists(os.path.join(d, "verify.json")) else None
        det = json.load(open(os.path.join(d, "detect.json"))) if os.path.exists(os.path.join(d, "detect.json")) else None
        meta = dict(
            id=ident, breaks_property=ident.split("-")[0], change=what, needs_to_manifest=needs, written_by=author,
            files=sorted(f for f in os.listdir(d) if f not in ("meta.json",)),
            independent_confirmation=(dict(
                how="selftest/verify_seeded.sh: scratch worktree /tmp/vs_verify of /repo HEAD, patch applied, repo test suite "
                    "(cmake --build + ctest, 17 executables) and the author's demo built with and without the patch",
                confirmed=ver.get("confirmed"), test_suite=ver.get("test_suite_summary"),
                demo_exit_with_patch=ver["demo_with_patch"]["exit"], demo_exit_without_patch=ver["demo_without_patch"]["exit"],
                demo_build_cmd=ver.get("demo_build_cmd")) if ver else "pending"),
            detection=(dict(ran=det["command"], detected=det["detected"], exit_code=det["exit_code"],
                            violation_classes=det["violation_classes"], minimised=det["minimised"], summary=det["summary"])
                       if det else "pending"),
        )
        json.dump(meta, open(os.path.join(d, "meta.json"), "w"), indent=1)
        print(ident, "confirmed" if ver and ver.get("confirmed") else "unconfirmed", "detected" if det and det["detected"] else "?")


if __name__ == "__main__":
    main()
