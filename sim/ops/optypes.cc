#include "optypes.h"
#include "../core/digest.h"
#include <cstring>
#include <vector>
#include <algorithm>

namespace vsim {

namespace {
struct Row { int op; OpInfo info; };
// name, class, arg2, nout, const, rand, touches_static
const Row kRows[] = {
  {OP_INVERSE, {"inverse", C_ELEM, A_NONE, 1, true, false, false}},
  {OP_LOG, {"log", C_ELEM, A_NONE, 1, true, false, false}},
  {OP_LIFT, {"lift", C_ELEM, A_NONE, 1, true, false, false}},
  {OP_COMPOSE, {"compose", C_ELEM, A_ELEM, 2, true, false, false}},
  {OP_BETWEEN, {"between", C_ELEM, A_ELEM, 2, true, false, false}},
  {OP_RPLUS, {"rplus", C_ELEM, A_TAN, 2, true, false, false}},
  {OP_LPLUS, {"lplus", C_ELEM, A_TAN, 2, true, false, false}},
  {OP_PLUS, {"plus", C_ELEM, A_TAN, 2, true, false, false}},
  {OP_RMINUS, {"rminus", C_ELEM, A_ELEM, 2, true, false, false}},
  {OP_LMINUS, {"lminus", C_ELEM, A_ELEM, 2, true, false, false}},
  {OP_MINUS, {"minus", C_ELEM, A_ELEM, 2, true, false, false}},
  {OP_ACT, {"act", C_ELEM, A_PT, 2, true, false, false}},
  {OP_ADJ, {"adj", C_ELEM, A_NONE, 0, true, false, true}},
  {OP_MUL, {"op*", C_ELEM, A_ELEM, 0, true, false, false}},
  {OP_ADD, {"op+", C_ELEM, A_TAN, 0, true, false, false}},
  {OP_SUB, {"op-", C_ELEM, A_ELEM, 0, true, false, false}},
  {OP_ISAPPROX, {"isApprox", C_ELEM, A_ELEM, 0, true, false, true}},
  {OP_EQ, {"op==", C_ELEM, A_ELEM, 0, true, false, true}},
  {OP_TRANSFORM, {"transform", C_ELEM, A_NONE, 0, true, false, false}},
  {OP_ROTATION, {"rotation", C_ELEM, A_NONE, 0, true, false, false}},
  {OP_CASTRT, {"cast", C_ELEM, A_NONE, 0, true, false, false}},
  {OP_COEFFS, {"coeffs", C_ELEM, A_NONE, 0, true, false, false}},
  {OP_DATAPTR, {"data()", C_ELEM, A_NONE, 0, true, false, false}},
  {OP_ACCESSORS, {"accessors", C_ELEM, A_NONE, 0, true, false, false}},
  {OP_CONSTRUCT, {"construct", C_ELEM, A_NONE, 0, true, false, false}},
  {OP_STREAM, {"os<<X", C_ELEM, A_NONE, 0, true, false, false}},
  {OP_CTOR, {"component-ctor", C_ELEM, A_NONE, 0, true, false, false}},
  {OP_HOLD, {"held-results", C_ELEM, A_ELEM, 0, true, false, true}},

  {OP_EXP, {"exp", C_TAN, A_NONE, 1, true, false, false}},
  {OP_RETRACT, {"retract", C_TAN, A_NONE, 1, true, false, false}},
  {OP_HAT, {"hat", C_TAN, A_NONE, 0, true, false, false}},
  {OP_RJAC, {"rjac", C_TAN, A_NONE, 0, true, false, true}},
  {OP_LJAC, {"ljac", C_TAN, A_NONE, 0, true, false, true}},
  {OP_RJACINV, {"rjacinv", C_TAN, A_NONE, 0, true, false, true}},
  {OP_LJACINV, {"ljacinv", C_TAN, A_NONE, 0, true, false, true}},
  {OP_SMALLADJ, {"smallAdj", C_TAN, A_NONE, 0, true, false, true}},
  {OP_INNER, {"inner", C_TAN, A_TAN, 0, true, false, true}},
  {OP_WNORM, {"weightedNorm", C_TAN, A_NONE, 0, true, false, true}},
  {OP_SQWNORM, {"squaredWeightedNorm", C_TAN, A_NONE, 0, true, false, true}},
  {OP_BRACKET, {"bracket", C_TAN, A_TAN, 0, true, false, true}},
  {OP_TPLUS, {"t.plus(t)", C_TAN, A_TAN, 2, true, false, false}},
  {OP_TMINUS, {"t.minus(t)", C_TAN, A_TAN, 2, true, false, false}},
  {OP_T_RPLUS_X, {"t.rplus(X)", C_TAN, A_ELEM, 2, true, false, false}},
  {OP_T_LPLUS_X, {"t.lplus(X)", C_TAN, A_ELEM, 2, true, false, false}},
  {OP_T_PLUS_X, {"t.plus(X)", C_TAN, A_ELEM, 2, true, false, false}},
  {OP_T_ADD_X, {"t+X", C_TAN, A_ELEM, 0, true, false, false}},
  {OP_T_ISAPPROX, {"t.isApprox", C_TAN, A_TAN, 0, true, false, false}},
  {OP_T_NEG, {"-t", C_TAN, A_NONE, 0, true, false, false}},
  {OP_T_SCALE, {"t*s", C_TAN, A_SCALAR, 0, true, false, false}},
  {OP_T_ADD_T, {"t+t", C_TAN, A_TAN, 0, true, false, false}},
  {OP_T_SUB_T, {"t-t", C_TAN, A_TAN, 0, true, false, false}},
  {OP_T_GENERATOR_M, {"t.generator", C_TAN, A_IDX, 0, true, false, true}},
  {OP_T_INNERW_M, {"t.innerWeights", C_TAN, A_NONE, 0, true, false, true}},
  {OP_T_CASTRT, {"t.cast", C_TAN, A_NONE, 0, true, false, false}},
  {OP_JT_MUL, {"J*t", C_TAN, A_NONE, 0, true, false, true}},
  {OP_T_ACCESSORS, {"t.accessors", C_TAN, A_NONE, 0, true, false, false}},
  {OP_T_STREAM, {"os<<t", C_TAN, A_NONE, 0, true, false, false}},
  {OP_T_HOLD, {"t.held-results", C_TAN, A_TAN, 0, true, false, true}},
  {OP_T_DATAPTR, {"t.data()", C_TAN, A_NONE, 0, true, false, false}},
  {OP_T_CONSTRUCT, {"t.construct", C_TAN, A_NONE, 0, true, false, false}},

  {OP_IDENTITY, {"Identity", C_STATIC, A_NONE, 0, true, false, true}},
  {OP_ZERO, {"Zero", C_STATIC, A_NONE, 0, true, false, true}},
  {OP_GENERATOR, {"Generator", C_STATIC, A_IDX, 0, true, false, true}},
  {OP_INNERWEIGHTS, {"InnerWeights", C_STATIC, A_NONE, 0, true, false, true}},
  {OP_VEE, {"Vee", C_STATIC, A_NONE, 0, true, false, false}},
  {OP_BRACKET_S, {"Bracket", C_STATIC, A_TAN, 0, true, false, true}},
  {OP_RANDOM, {"Random", C_STATIC, A_NONE, 0, false, true, false}},
  {OP_T_RANDOM, {"Tangent::Random", C_STATIC, A_NONE, 0, false, true, false}},

  {OP_INTERP_SLERP, {"interp_slerp", C_ALG, A_ELEM, 0, true, false, true}},
  {OP_INTERP_CUBIC, {"interp_cubic", C_ALG, A_ELEM, 0, true, false, true}},
  {OP_INTERP_SMOOTH, {"interp_smooth", C_ALG, A_ELEM, 0, true, false, true}},
  {OP_AVG_BIINV, {"average_biinvariant", C_ALG, A_NONE, 0, true, false, false}},
  {OP_AVG, {"average", C_ALG, A_NONE, 0, true, false, true}},
  {OP_AVG_FL, {"average_frechet_left", C_ALG, A_NONE, 0, true, false, true}},
  {OP_AVG_FR, {"average_frechet_right", C_ALG, A_NONE, 0, true, false, true}},
  {OP_DECASTELJAU, {"decasteljau", C_ALG, A_NONE, 0, true, false, false}},
  {OP_SMOOTH_PHI, {"smoothing_phi", C_ALG, A_SCALAR, 0, true, false, false}},

  {OP_M_ASSIGN, {"X=Y", C_MUT_E, A_ELEM, 0, false, false, false}},
  {OP_M_SETIDENTITY, {"setIdentity", C_MUT_E, A_NONE, 0, false, false, true}},
  {OP_M_SETRANDOM, {"setRandom", C_MUT_E, A_NONE, 0, false, true, false}},
  {OP_M_PLUSEQ, {"X+=t", C_MUT_E, A_TAN, 0, false, false, false}},
  {OP_M_MULEQ, {"X*=Y", C_MUT_E, A_ELEM, 0, false, false, false}},
  {OP_M_NORMALIZE, {"normalize", C_MUT_E, A_NONE, 0, false, false, false}},
  {OP_M_COEFFWRITE, {"coeffs()(i)=", C_MUT_E, A_ELEM, 0, false, false, false}},
  {OP_M_ALIAS, {"X=f(X)", C_MUT_E, A_ELEM, 0, false, false, false}},
  {OP_M_ASSIGN_EIGEN, {"X=vector", C_MUT_E, A_ELEM, 0, false, false, false}},
  {OP_M_MOVE_ASSIGN, {"X=move(Y)", C_MUT_E, A_ELEM, 0, false, false, false}},
  {OP_M_SUBVIEW_WRITE, {"subview-write", C_MUT_E, A_ELEM, 0, false, false, false}},
  {OP_M_SETTERS, {"setters", C_MUT_E, A_ELEM, 0, false, false, false}},

  {OP_TM_ASSIGN, {"t=u", C_MUT_T, A_TAN, 0, false, false, false}},
  {OP_TM_SETZERO, {"t.setZero", C_MUT_T, A_NONE, 0, false, false, false}},
  {OP_TM_SETRANDOM, {"t.setRandom", C_MUT_T, A_NONE, 0, false, true, false}},
  {OP_TM_PLUSEQ, {"t+=u", C_MUT_T, A_TAN, 0, false, false, false}},
  {OP_TM_MINUSEQ, {"t-=u", C_MUT_T, A_TAN, 0, false, false, false}},
  {OP_TM_MULEQ, {"t*=s", C_MUT_T, A_SCALAR, 0, false, false, false}},
  {OP_TM_DIVEQ, {"t/=s", C_MUT_T, A_SCALAR, 0, false, false, false}},
  {OP_TM_STREAM, {"t<<", C_MUT_T, A_TAN, 0, false, false, false}},
  {OP_TM_LOG_INTO, {"t=X.log()", C_MUT_T, A_ELEM, 0, false, false, false}},
  {OP_TM_ASSIGN_EIGEN, {"t=vector", C_MUT_T, A_TAN, 0, false, false, false}},
  {OP_TM_COEFFWRITE, {"t.coeffs()(i)=", C_MUT_T, A_TAN, 0, false, false, false}},
  {OP_TM_SETVEE, {"t.setVee", C_MUT_T, A_TAN, 0, false, false, false}},
  {OP_TM_BLOCKSET, {"t.blocks=", C_MUT_T, A_TAN, 0, false, false, false}},
  {OP_TM_MOVE_ASSIGN, {"t=move(u)", C_MUT_T, A_TAN, 0, false, false, false}},
};

OpInfo g_table[OP__END];
bool g_table_ready = false;
void build_table() {
  for (int i = 0; i < OP__END; ++i) { g_table[i].name = nullptr; g_table[i].cls = C_NONE; }
  for (size_t i = 0; i < sizeof(kRows) / sizeof(kRows[0]); ++i) g_table[kRows[i].op] = kRows[i].info;
  g_table_ready = true;
}
struct TableInit { TableInit() { build_table(); } } g_table_init;

std::vector<const GroupVT*>& registry() {
  static std::vector<const GroupVT*>* r = new std::vector<const GroupVT*>();
  return *r;
}
bool g_sorted = false;
void sort_registry() {
  if (g_sorted) return;
  std::sort(registry().begin(), registry().end(),
            [](const GroupVT* a, const GroupVT* b) { return std::strcmp(a->name, b->name) < 0; });
  g_sorted = true;
}
}  // namespace

const OpInfo& op_info(int op) {
  if (!g_table_ready) build_table();
  static const OpInfo none = {nullptr, C_NONE, A_NONE, 0, false, false, false};
  if (op < 0 || op >= OP__END) return none;
  return g_table[op];
}

int op_by_name(const char* name) {
  for (int i = 0; i < OP__END; ++i)
    if (op_info(i).name && std::strcmp(op_info(i).name, name) == 0) return i;
  return -1;
}

void register_group(const GroupVT* vt) { registry().push_back(vt); g_sorted = false; }
int n_groups() { sort_registry(); return (int)registry().size(); }
const GroupVT* group(int i) { sort_registry(); return registry()[i]; }
const GroupVT* group_by_name(const char* n) {
  sort_registry();
  for (size_t i = 0; i < registry().size(); ++i)
    if (std::strcmp(registry()[i]->name, n) == 0) return registry()[i];
  return nullptr;
}

uint64_t Out::digest_v() const { Fnv f; f.i32(status); f.i32(nv); f.bytes(v, sizeof(double) * nv); return f.h; }
uint64_t Out::digest_j(int which) const {
  Fnv f;
  if (which == 1) { f.i32(n1); f.bytes(j1, sizeof(double) * n1); }
  else { f.i32(n2); f.bytes(j2, sizeof(double) * n2); }
  return f.h;
}
uint64_t Out::digest() const {
  Fnv f; f.i32(status); f.i32(flags); f.u64(digest_v()); f.u64(digest_j(1)); f.u64(digest_j(2)); return f.h;
}

}  // namespace vsim
