#include "common.h"
#include <cmath>
#include <cstring>
#include <cstdlib>
#include <sstream>
#include <fstream>

namespace vsim {

long Plan::cfg_int(const char* k, long dflt) const {
  auto it = cfg.find(k);
  return it == cfg.end() ? dflt : std::strtol(it->second.c_str(), nullptr, 10);
}
double Plan::cfg_dbl(const char* k, double dflt) const {
  auto it = cfg.find(k);
  return it == cfg.end() ? dflt : std::strtod(it->second.c_str(), nullptr);
}
void Plan::set(const char* k, long v) { cfg[k] = std::to_string(v); }
void Plan::setd(const char* k, double v) { char b[64]; snprintf(b, sizeof b, "%a", v); cfg[k] = b; }

static const char* kind_name(StepKind k) {
  switch (k) {
    case ST_SETE: return "SETE"; case ST_SETT: return "SETT"; case ST_SETP: return "SETP";
    case ST_SETVEC: return "SETVEC"; case ST_OP: return "OP"; case ST_NEG: return "NEG"; case ST_USERW: return "USERW"; default: return "MARK";
  }
}

std::string step_to_string(const Plan& p, const Step& s) {
  (void)p;
  std::ostringstream o;
  char b[64];
  o << "S " << (int)s.group << " " << kind_name(s.kind);
  switch (s.kind) {
    case ST_SETE: case ST_SETT: case ST_SETP: case ST_USERW:
      o << " " << s.slot << " " << s.vals.size();
      for (double v : s.vals) { snprintf(b, sizeof b, " %a", v); o << b; }
      break;
    case ST_SETVEC:
      o << " " << s.slot << " " << s.vals.size();
      for (double v : s.vals) o << " " << (int)v;
      break;
    case ST_NEG: o << " " << s.slot; break;
    case ST_OP: {
      const OpInfo& inf = op_info(s.op.op);
      snprintf(b, sizeof b, "%a", s.op.s);
      o << " " << (inf.name ? inf.name : "?") << " " << (int)s.op.thread << " " << (int)s.op.a << " " << (int)s.op.b
        << " " << (int)s.op.c << " " << (int)s.op.ka << " " << (int)s.op.kb << " " << (int)s.op.mask << " "
        << (int)s.op.variant << " " << s.dst << " " << s.rep << " " << (int)s.op.fault << " " << (int)s.op.fparam
        << " " << b;
    } break;
    default: break;
  }
  return o.str();
}

void plan_write(const Plan& p, FILE* f) {
  fprintf(f, "PLAN v1 check=%s seed=%llu\n", p.check.c_str(), (unsigned long long)p.seed);
  for (auto& kv : p.cfg) fprintf(f, "CFG %s=%s\n", kv.first.c_str(), kv.second.c_str());
  for (size_t i = 0; i < p.groups.size(); ++i) fprintf(f, "G %zu %s\n", i, p.groups[i].c_str());
  for (const Step& s : p.steps) fprintf(f, "%s\n", step_to_string(p, s).c_str());
  if (p.has_schedule) {
    fprintf(f, "SCHED %zu", p.schedule.size());
    for (int t : p.schedule) fprintf(f, " %d", t);
    fprintf(f, "\n");
  }
  for (size_t t = 0; t < p.preempts.size(); ++t) {
    fprintf(f, "PRE %zu %zu", t, p.preempts[t].size());
    for (uint64_t c : p.preempts[t]) fprintf(f, " %llu", (unsigned long long)c);
    fprintf(f, "\n");
  }
}

bool plan_read(Plan& p, const char* path, std::string& err) {
  std::ifstream in(path);
  if (!in) { err = std::string("cannot open ") + path; return false; }
  std::string line;
  p = Plan();
  while (std::getline(in, line)) {
    if (line.empty() || line[0] == '#') continue;
    std::istringstream is(line);
    std::string tag;
    is >> tag;
    if (tag == "PLAN") {
      std::string w;
      while (is >> w) {
        if (w.compare(0, 6, "check=") == 0) p.check = w.substr(6);
        else if (w.compare(0, 5, "seed=") == 0) p.seed = std::strtoull(w.c_str() + 5, nullptr, 10);
      }
    } else if (tag == "CFG") {
      std::string kv; is >> kv;
      size_t eq = kv.find('=');
      if (eq != std::string::npos) p.cfg[kv.substr(0, eq)] = kv.substr(eq + 1);
    } else if (tag == "G") {
      size_t idx; std::string name; is >> idx >> name;
      if (p.groups.size() <= idx) p.groups.resize(idx + 1);
      p.groups[idx] = name;
    } else if (tag == "S") {
      Step s; int g; std::string kind;
      is >> g >> kind; s.group = (uint8_t)g;
      if (kind == "SETE" || kind == "SETT" || kind == "SETP" || kind == "USERW") {
        s.kind = kind == "SETE" ? ST_SETE : kind == "SETT" ? ST_SETT : kind == "USERW" ? ST_USERW : ST_SETP;
        size_t n; is >> s.slot >> n;
        for (size_t i = 0; i < n; ++i) { std::string h; is >> h; s.vals.push_back(std::strtod(h.c_str(), nullptr)); }
      } else if (kind == "SETVEC") {
        s.kind = ST_SETVEC; size_t n; is >> s.slot >> n;
        for (size_t i = 0; i < n; ++i) { int v; is >> v; s.vals.push_back(v); }
      } else if (kind == "NEG") {
        s.kind = ST_NEG; is >> s.slot;
      } else if (kind == "OP") {
        s.kind = ST_OP;
        std::string name, sv; int th, a, b, c, ka, kb, mask, var, fault, fparam;
        is >> name >> th >> a >> b >> c >> ka >> kb >> mask >> var >> s.dst >> s.rep >> fault >> fparam >> sv;
        int op = op_by_name(name.c_str());
        if (op < 0) { err = "unknown op " + name; return false; }
        s.op.op = (uint16_t)op; s.op.thread = (uint8_t)th; s.op.group = s.group;
        s.op.a = (uint8_t)a; s.op.b = (uint8_t)b; s.op.c = (uint8_t)c; s.op.ka = (uint8_t)ka; s.op.kb = (uint8_t)kb;
        s.op.mask = (uint8_t)mask; s.op.variant = (uint8_t)var; s.op.fault = (uint8_t)fault;
        s.op.fparam = (uint16_t)fparam; s.op.s = std::strtod(sv.c_str(), nullptr);
      } else continue;
      if (is.fail()) { err = "malformed step: " + line; return false; }
      p.steps.push_back(s);
    } else if (tag == "SCHED") {
      size_t n; is >> n; p.has_schedule = true;
      for (size_t i = 0; i < n; ++i) { int t; is >> t; p.schedule.push_back(t); }
    } else if (tag == "PRE") {
      size_t t, n; is >> t >> n;
      if (p.preempts.size() <= t) p.preempts.resize(t + 1);
      for (size_t i = 0; i < n; ++i) { unsigned long long c; is >> c; p.preempts[t].push_back(c); }
    }
  }
  return true;
}

// ---------------------------------------------------------------------------
void Result::fail(const char* oracle_, const std::string& cls_, const std::string& detail_, long step) {
  if (failed()) return;  // first violation wins
  status = "violation"; oracle = oracle_; cls = cls_; detail = detail_; step_index = step;
}

static std::string sanitize(const std::string& s) {
  std::string o;
  for (char c : s) o.push_back((c == ' ' || c == '\n' || c == '\t') ? '_' : c);
  return o;
}

void Result::print(FILE* f) const {
  fprintf(f, "RESULT status=%s", status.c_str());
  if (failed()) fprintf(f, " oracle=%s class=%s step=%ld", sanitize(oracle).c_str(), sanitize(cls).c_str(), step_index);
  for (auto& kv : str) fprintf(f, " %s=%s", kv.first.c_str(), sanitize(kv.second).c_str());
  for (auto& kv : num) {
    double v = kv.second;
    if (v == std::floor(v) && std::fabs(v) < 1e15) fprintf(f, " %s=%lld", kv.first.c_str(), (long long)v);
    else fprintf(f, " %s=%.6g", kv.first.c_str(), v);
  }
  fprintf(f, "\n");
  if (failed()) fprintf(f, "DETAIL %s\n", detail.c_str());
  fflush(f);
}

// ---------------------------------------------------------------------------
bool Ctx::init(const Plan& p, std::string& err) {
  g.resize(p.groups.size());
  for (size_t i = 0; i < p.groups.size(); ++i) {
    g[i].vt = group_by_name(p.groups[i].c_str());
    if (!g[i].vt) { err = "unknown group " + p.groups[i]; return false; }
    g[i].st = g[i].vt->state_new(nullptr, nullptr);
  }
  return true;
}
void Ctx::destroy() {
  for (auto& x : g) if (x.st) { x.vt->state_free(x.st); x.st = nullptr; }
}

// ---------------------------------------------------------------------------
double round_scalar(const GroupVT* vt, double x) { return vt->is_float ? (double)(float)x : x; }

void gen_unit_axis(Rng& r, double* u) {
  for (;;) {
    double x = r.sym(1), y = r.sym(1), z = r.sym(1);
    double n = std::sqrt(x * x + y * y + z * z);
    if (n > 1e-3 && n <= 1.0) { u[0] = x / n; u[1] = y / n; u[2] = z / n; return; }
  }
}

static void fill_lin(const GroupVT* vt, Rng& r, double lo, double hi, double* c) {
  for (int k = 0; k < vt->n_lin; ++k)
    for (int i = 0; i < vt->lin[k].len; ++i)
      c[vt->lin[k].off + i] = (hi <= 0) ? 0.0 : round_scalar(vt, r.logmag(lo, hi));
}

void gen_elem(const GroupVT* vt, Rng& r, const ElemSpec& sp, double* c) {
  for (int i = 0; i < vt->rep; ++i) c[i] = 0;
  fill_lin(vt, r, sp.lin_lo, sp.lin_hi, c);
  for (int k = 0; k < vt->n_unit; ++k) {
    const Block& b = vt->unit[k];
    double ang = sp.angle >= 0 ? sp.angle : r.uniform(0, M_PI);
    if (b.len == 2) {
      double a = r.chance(0.5) ? ang : -ang;
      long double cr = cosl((long double)a), si = sinl((long double)a);
      c[b.off] = round_scalar(vt, (double)cr); c[b.off + 1] = round_scalar(vt, (double)si);
      // renormalise after rounding (float)
      double n = std::sqrt(c[b.off] * c[b.off] + c[b.off + 1] * c[b.off + 1]);
      c[b.off] = round_scalar(vt, c[b.off] / n); c[b.off + 1] = round_scalar(vt, c[b.off + 1] / n);
    } else {
      double u[3]; gen_unit_axis(r, u);
      long double s = sinl((long double)ang / 2), w = cosl((long double)ang / 2);
      double q[4] = {(double)(u[0] * s), (double)(u[1] * s), (double)(u[2] * s), (double)w};
      double sg = sp.neg_hemisphere ? -1.0 : 1.0;
      for (int i = 0; i < 4; ++i) c[b.off + i] = round_scalar(vt, sg * q[i]);
    }
    if (sp.exact) {
      // exactly representable rotations that exp() never produces: w == +-0, or two equal components
      const double sg = r.chance(0.5) ? 1.0 : -1.0;
      if (b.len == 2) {
        if (sp.exact == 1) { c[b.off] = -1.0; c[b.off + 1] = r.chance(0.5) ? 0.0 : -0.0; }
        else { c[b.off] = 0.0; c[b.off + 1] = sg; }
      } else {
        const int ax = (int)r.below(3);
        for (int i = 0; i < 4; ++i) c[b.off + i] = 0.0;
        if (sp.exact == 1) { c[b.off + ax] = sg; c[b.off + 3] = r.chance(0.5) ? 0.0 : -0.0; }
        else { const double h = round_scalar(vt, std::sqrt(0.5)); c[b.off + ax] = sg * h; c[b.off + 3] = h; }
      }
    }
    if (sp.norm_scale != 1.0)
      for (int i = 0; i < b.len; ++i) c[b.off + i] = round_scalar(vt, c[b.off + i] * sp.norm_scale);
  }
}

void perturb_elem(const GroupVT* vt, Rng& r, const double* in, double dtheta, double dlin, double* out) {
  for (int i = 0; i < vt->rep; ++i) out[i] = in[i];
  for (int k = 0; k < vt->n_lin; ++k)
    for (int i = 0; i < vt->lin[k].len; ++i) out[vt->lin[k].off + i] = round_scalar(vt, in[vt->lin[k].off + i] + r.sym(dlin));
  for (int k = 0; k < vt->n_unit; ++k) {
    const Block& b = vt->unit[k];
    if (b.len == 2) {
      long double c = cosl((long double)dtheta), s = sinl((long double)dtheta);
      long double re = in[b.off] * c - in[b.off + 1] * s, im = in[b.off] * s + in[b.off + 1] * c;
      long double n = sqrtl(re * re + im * im);
      out[b.off] = round_scalar(vt, (double)(re / n)); out[b.off + 1] = round_scalar(vt, (double)(im / n));
    } else {
      double u[3]; gen_unit_axis(r, u);
      long double h = (long double)dtheta / 2, sh = sinl(h), ch = cosl(h);
      long double dx = u[0] * sh, dy = u[1] * sh, dz = u[2] * sh, dw = ch;
      long double x = in[b.off], y = in[b.off + 1], z = in[b.off + 2], w = in[b.off + 3];
      long double q[4] = {w * dx + x * dw + y * dz - z * dy, w * dy - x * dz + y * dw + z * dx,
                          w * dz + x * dy - y * dx + z * dw, w * dw - x * dx - y * dy - z * dz};
      long double n = sqrtl(q[0] * q[0] + q[1] * q[1] + q[2] * q[2] + q[3] * q[3]);
      for (int i = 0; i < 4; ++i) out[b.off + i] = round_scalar(vt, (double)(q[i] / n));
    }
  }
}

void spice_elem_spec(const GroupVT* vt, Rng& r, ElemSpec& sp) {
  double u = r.unit();
  if (u < 0.10) sp.angle = std::fabs(r.logmag(1e-12, 1e-7));                 // small-angle branch of log
  else if (u < 0.14) sp.angle = 0.0;
  else if (u < 0.20) sp.angle = M_PI - std::fabs(r.logmag(1e-10, 1e-3));     // close to pi
  if (r.chance(0.12)) sp.norm_scale = 1.0 + (r.chance(0.5) ? 0.9 : -0.9) * vt->eps;
  else if (r.chance(0.06)) sp.exact = 1 + (int)r.below(2);
}

void gen_tan(const GroupVT* vt, Rng& r, const TanSpec& sp, double* c) {
  for (int i = 0; i < vt->dof; ++i) c[i] = (sp.lin_hi <= 0) ? 0.0 : round_scalar(vt, r.logmag(sp.lin_lo, sp.lin_hi));
  for (int k = 0; k < vt->n_ang; ++k) {
    const Block& b = vt->ang[k];
    double ang = sp.angle >= 0 ? sp.angle : std::fabs(r.logmag(1e-12, M_PI));
    if (b.len == 1) c[b.off] = round_scalar(vt, sp.sign1 * ang);
    else {
      double u[3];
      if (sp.axis) { u[0] = sp.axis[0]; u[1] = sp.axis[1]; u[2] = sp.axis[2]; } else gen_unit_axis(r, u);
      for (int i = 0; i < 3; ++i) c[b.off + i] = round_scalar(vt, u[i] * ang);
    }
  }
}

void gen_pt(const GroupVT* vt, Rng& r, double lo, double hi, double* c) {
  for (int i = 0; i < vt->dim; ++i) c[i] = round_scalar(vt, r.logmag(lo, hi));
}

bool all_finite(const double* v, int n) {
  for (int i = 0; i < n; ++i) if (!std::isfinite(v[i])) return false;
  return true;
}
double max_abs(const double* v, int n) {
  double m = 0;
  for (int i = 0; i < n; ++i) if (std::fabs(v[i]) > m) m = std::fabs(v[i]);
  return m;
}

Validity check_validity(const GroupVT* vt, const double* c) {
  Validity v; v.finite = all_finite(c, vt->rep); v.max_unit_dev = 0; v.max_lin = 0;
  for (int k = 0; k < vt->n_unit; ++k) {
    long double s = 0;
    for (int i = 0; i < vt->unit[k].len; ++i) s += (long double)c[vt->unit[k].off + i] * c[vt->unit[k].off + i];
    double d = std::fabs((double)sqrtl(s) - 1.0);
    if (!(d <= v.max_unit_dev)) v.max_unit_dev = d;   // NaN propagates as "not <="
  }
  for (int k = 0; k < vt->n_lin; ++k)
    for (int i = 0; i < vt->lin[k].len; ++i) {
      double a = std::fabs(c[vt->lin[k].off + i]);
      if (a > v.max_lin) v.max_lin = a;
    }
  return v;
}

ValKind op_value_kind(int op) {
  switch (op) {
    case OP_INVERSE: case OP_COMPOSE: case OP_BETWEEN: case OP_RPLUS: case OP_LPLUS: case OP_PLUS:
    case OP_MUL: case OP_ADD: case OP_CASTRT: case OP_COEFFS: case OP_CONSTRUCT: case OP_CTOR: case OP_EXP: case OP_RETRACT:
    case OP_T_RPLUS_X: case OP_T_LPLUS_X: case OP_T_PLUS_X: case OP_T_ADD_X:
    case OP_IDENTITY: case OP_RANDOM: case OP_INTERP_SLERP: case OP_INTERP_CUBIC: case OP_INTERP_SMOOTH:
    case OP_AVG_BIINV: case OP_AVG: case OP_AVG_FL: case OP_AVG_FR:
    case OP_M_ASSIGN: case OP_M_SETIDENTITY: case OP_M_SETRANDOM: case OP_M_PLUSEQ: case OP_M_MULEQ:
    case OP_M_NORMALIZE: case OP_M_COEFFWRITE: case OP_M_ALIAS: case OP_M_ASSIGN_EIGEN: case OP_M_MOVE_ASSIGN:
    case OP_M_SUBVIEW_WRITE: case OP_M_SETTERS:
      return VK_ELEM;
    case OP_LOG: case OP_LIFT: case OP_RMINUS: case OP_LMINUS: case OP_MINUS: case OP_SUB:
    case OP_BRACKET: case OP_TPLUS: case OP_TMINUS: case OP_T_NEG: case OP_T_SCALE: case OP_T_ADD_T: case OP_T_SUB_T:
    case OP_T_CASTRT: case OP_T_CONSTRUCT: case OP_JT_MUL: case OP_ZERO: case OP_VEE: case OP_BRACKET_S: case OP_T_RANDOM:
    case OP_TM_ASSIGN: case OP_TM_SETZERO: case OP_TM_SETRANDOM: case OP_TM_PLUSEQ: case OP_TM_MINUSEQ:
    case OP_TM_MULEQ: case OP_TM_DIVEQ: case OP_TM_STREAM: case OP_TM_LOG_INTO: case OP_TM_ASSIGN_EIGEN:
    case OP_TM_COEFFWRITE: case OP_TM_SETVEE: case OP_TM_BLOCKSET: case OP_TM_MOVE_ASSIGN:
      return VK_TAN;
    default: return VK_OTHER;
  }
}

const char* status_name(int st) {
  switch (st) {
    case 0: return "ok"; case 1: return "manif::invalid_argument"; case 2: return "manif::runtime_error";
    case 3: return "std::logic_error"; case 4: return "std::exception"; case 5: return "unknown-exception";
    case 9: return "not-applicable"; default: return "?";
  }
}

Step make_set(StepKind k, int group, int slot, const double* v, int n) {
  Step s; s.kind = k; s.group = (uint8_t)group; s.slot = slot; s.vals.assign(v, v + n); return s;
}
Step make_op(int group, int op, int a, int b, int dst) {
  Step s; s.kind = ST_OP; s.group = (uint8_t)group; s.dst = dst;
  s.op.op = (uint16_t)op; s.op.group = (uint8_t)group; s.op.a = (uint8_t)a; s.op.b = (uint8_t)b;
  return s;
}

}  // namespace vsim
