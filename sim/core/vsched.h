// C interface of the uninstrumented simulator core (scheduler, guard / rand /
// function-entry seams, static-region watch).  Everything behind these
// functions is compiled WITHOUT sanitizer instrumentation, so the hand-offs
// between simulated threads create no happens-before edges that a race
// detector could see.  Nothing here may be header-inline.
#ifndef VSIM_SCHED_H
#define VSIM_SCHED_H
#include <cstdint>
#include <cstdio>

extern "C" {

enum VsReason {
  VS_R_START = 0,      // thread parked right after creation
  VS_R_OPB = 1,        // operation boundary (tag = op index)
  VS_R_G_PRE = 2,      // about to test/take a guard (tag = guard id)
  VS_R_G_WON = 3,      // guard taken, initialiser in flight
  VS_R_G_PREREL = 4,   // object built, guard not yet released
  VS_R_G_POSTREL = 5,  // guard released
  VS_R_G_BLOCKED = 6,  // arrived at a guard owned by another simulated thread
  VS_R_PREEMPT = 7,    // function-entry pre-emption (tag = entry count)
  VS_R_STALL = 8,      // injected stall
  VS_R_EXIT = 9,
  VS_R_NEIGHBOUR = 10, // neighbour-writer step (C10)
  VS_R_G_ABORT = 11,
  VS_R_LOCK = 12,         // about to take a pthread mutex
  VS_R_LOCK_BLOCKED = 13, // mutex / once owned by another simulated thread
  VS_R_UNLOCK = 14,
  VS_R_CV = 15,           // condition variable: waiting (blocked) / after a notify (tag = first-seen ordinal)
  VS_R_SPIN = 16          // forced yield: too many function entries since the last scheduling point (spin wait); tag = consecutive count
};

enum VsPolicy { VS_P_UNIFORM = 0, VS_P_PCT = 1, VS_P_STICKY = 2 };

// ---- configuration (main thread, before vs_run) -------------------------
void vs_sim_begin(uint64_t seed, int nthreads, int policy, int pct_depth,
                  long est_steps, long step_budget);
void vs_sim_replay(const int* tids, int n);
void vs_set_preempts(int tid, const uint64_t* counts, int n);
void vs_set_initial_stall(int tid, int k);
void vs_set_guard_points(int on);     // scheduling points around guards on/off
void vs_count_entries(int on);        // count instrumented function entries for the calling context

// ---- worker side ---------------------------------------------------------
void vs_thread_begin(int tid);
void vs_thread_end(void);
void vs_yield(int reason, unsigned tag);
void vs_stall(int k, unsigned tag);
int  vs_tid_self(void);
// entry counting for the sequential calibration run: attribute to logical thread
void vs_calib_thread(int tid);
uint64_t vs_entries_of(int tid);

// ---- main side -----------------------------------------------------------
// returns 0 all threads done, 1 deadlock, 2 step budget exceeded, 3 stuck even when every thread runs freely
int vs_run(void);
int vs_used_freerun(void);              // the watchdog stopped serialising (a thread spun waiting for a parked one)
void vs_set_watchdog_ms(long stuck_ms, long freerun_ms);
long vs_lock_blocks(void);
long vs_lock_ops(void);
// condition variables (simulated: wait = unlock + block until notified + relock; timed waits expire when the
// simulated clock has nothing else to run): waits, notifies, notifies that found no waiter, expired timed waits
void vs_cv_stats(long* waits, long* notifies, long* empty_notifies, long* timeouts);
// fault: up to k waits of the run return without a notification (spurious wake-up, legal for every condition variable);
// which ones is a scheduling decision (a waiter is a candidate of the scheduler while the budget lasts) and replays with it
void vs_set_cv_spurious(int k);
// spin waits (instrumented flavours): a thread that executes more than `limit` function entries without reaching a
// scheduling point is parked there (a deterministic position) and stalled for two decisions; more than `budget`
// such yields in a row without any other scheduling point end the run with rc 4 (livelock).  limit 0 = off.
void vs_set_spin(long limit, int budget);
long vs_spin_yields(void);
unsigned long long vs_max_entry_gap(void);
int vs_max_entry_gap_where(int* prev_reason, unsigned* tag);   // reason codes of the scheduling points that end / begin the longest gap
long vs_cv_spurious_fired(void);
long vs_cv_nonfifo(void);
long vs_steps(void);
uint64_t vs_event_hash(void);
long vs_switches(void);
void vs_dump_events(FILE* f);
void vs_dump_schedule(FILE* f);  // space separated tids
long vs_schedule_len(void);
int vs_schedule_at(long i);
long vs_fault_count(int reason); // how many scheduler events of that reason
long vs_preempts_fired(void);
long vs_stalls_fired(void);
long vs_guard_contentions(void);
int  vs_guard_max_nest(void);
// first-use order: sequence of (guard id, initialising tid, blocked count)
uint64_t vs_first_use_hash(void);
void vs_dump_first_use(FILE* f);

// ---- static-region watch ---------------------------------------------------
int  vs_statics_init(void);               // parse own ELF; returns number of watched statics
int  vs_statics_count(void);
int  vs_guards_count(void);
const char* vs_static_name(int i);        // demangled, shortened
// re-hash all initialised statics; returns index of first changed static or -1
int  vs_statics_check(void);
void vs_statics_check_note(long step);     // same, remembers the first mutation (callable from simulated threads)
int  vs_first_mutation(long* step);        // index of first mutated static or -1
// guard accounting violations: -1 none, else guard id (double init / abort / unbalanced)
int  vs_guard_violation(char* buf, int buflen);
uint64_t vs_statics_final_hash(void);     // hash over (name, bytes) of all initialised statics
int  vs_statics_initialised(void);
void vs_dump_statics(FILE* f);
uint64_t vs_static_hash_at(int i);           // 0 = not initialised            // name + byte hash per initialised static

// ---- raw memory helpers (no libc call, invisible to the race detector) --------------
void vs_mem_copy(void* dst, const void* src, unsigned long n);
long vs_mem_diff(const void* a, const void* b, unsigned long n, long skip_lo, long skip_hi);  // first differing byte outside [skip_lo,skip_hi) or -1
uint64_t vs_mem_hash(const void* p, unsigned long n);
void vs_busy_clear(void);
void vs_busy_add(long lo, long hi);      // byte range of the arena the current operation may legitimately touch
int  vs_busy_test(long off);
void vs_flag_set(int v);
int  vs_flag_get(void);
void vs_preempt_in(uint64_t n);          // calling simulated thread yields at its n-th function entry from now

// ---- rand seam -------------------------------------------------------------
void vs_rand_mode(int seeded, uint64_t seed);
uint64_t vs_rand_draws(void);
void vs_rand_extreme_at(uint64_t draw_index, int which);  // which: 0 -> 0, 1 -> RAND_MAX
long vs_rand_extremes_fired(void);
void vs_rand_save(uint64_t* st5);     // state + draw counter
void vs_rand_restore(const uint64_t* st5);

// ---- sanitizer report accounting ---------------------------------------------
int  vs_tsan_reports(void);
long vs_tsan_first_step(void);

}  // extern "C"
#endif
