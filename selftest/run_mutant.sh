#!/bin/sh
# usage: run_mutant.sh <patch.diff> <Cxx> [groups] [runs]
# Applies a change to /repo, runs the quick check for the property in a separate build
# directory (optionally restricted to a few groups to keep the rebuild short), and undoes
# the change straight afterwards.  Exit code = exit code of the check (1 = detected).
set -u
PATCH="$(realpath "$1")"; PROP="$2"; GROUPS="${3:-}"; RUNS="${4:-}"
VERIF="$(cd "$(dirname "$0")/.." && pwd)"
if ! git -C /repo diff --quiet; then echo "refusing: /repo has uncommitted changes"; exit 3; fi
git -C /repo apply "$PATCH" || { echo "patch does not apply"; exit 3; }
BDIR="/tmp/vsim_mut_$$"
export VERIF_BUILD_DIR="$BDIR"
[ -n "$GROUPS" ] && export VS_GROUPS="$GROUPS"
[ -n "$RUNS" ] && export VERIF_RUNS="$RUNS"
export VERIF_NO_EVIDENCE=1
"$VERIF/bin/check" "$PROP" quick
RC=$?
git -C /repo checkout -- .
rm -rf "$BDIR"
exit $RC
