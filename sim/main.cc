// manifsim: one binary per build flavour.  One invocation = one or several
// simulated runs; every run prints exactly one RESULT line.
#include "checks/checks.h"
#include "core/vsched.h"
#include <cstring>
#include <cstdlib>
#include <string>

using namespace vsim;

#ifndef VS_FLAVOUR
#define VS_FLAVOUR "unknown"
#endif
namespace vsim { const char* flavour_name() { return VS_FLAVOUR; } }

static void usage() {
  fprintf(stderr,
          "manifsim --check C08|C03|C09|C10|C14 (--seed S | --base B --from i --to j) [--thorough]\n"
          "         [--emit-plan FILE] [--events FILE] [--mode M]\n"
          "manifsim --plan FILE [--events FILE]\n"
          "manifsim --list-groups | --list-statics\n");
}

static void dispatch(const RunOpts& o, Result& res) {
  if (o.check == "C08" || o.check == "C03") run_c08(o, res);
  else if (o.check == "C14") run_c14(o, res);
  else if (o.check == "C09") run_c09(o, res);
  else if (o.check == "C10") run_c10(o, res);
  else { res.status = "harness_error"; res.detail = "unknown check " + o.check; }
}

int main(int argc, char** argv) {
  RunOpts o;
  uint64_t base = 1; long from = -1, to = -1;
  bool have_seed = false;
  std::string emit, planpath;
  for (int i = 1; i < argc; ++i) {
    std::string a = argv[i];
    auto next = [&]() -> const char* { return (i + 1 < argc) ? argv[++i] : ""; };
    if (a == "--check") o.check = next();
    else if (a == "--seed") { o.seed = std::strtoull(next(), nullptr, 10); have_seed = true; }
    else if (a == "--base") base = std::strtoull(next(), nullptr, 10);
    else if (a == "--from") from = std::strtol(next(), nullptr, 10);
    else if (a == "--to") to = std::strtol(next(), nullptr, 10);
    else if (a == "--thorough") o.thorough = true;
    else if (a == "--dry") o.dry = true;
    else if (a == "--emit-plan") emit = next();
    else if (a == "--plan") planpath = next();
    else if (a == "--events") o.events_path = next();
    else if (a == "--mode") o.mode = next();
    else if (a == "--list-groups") {
      for (int g = 0; g < n_groups(); ++g) {
        const GroupVT* vt = group(g);
        printf("%s rep=%d dof=%d dim=%d float=%d units=%d angs=%d lins=%d caps=%x\n", vt->name, vt->rep, vt->dof, vt->dim,
               vt->is_float, vt->n_unit, vt->n_ang, vt->n_lin, vt->caps);
      }
      return 0;
    } else if (a == "--list-statics") {
      int n = vs_statics_init();
      printf("statics=%d guards=%d\n", n, vs_guards_count());
      for (int k = 0; k < n; ++k) printf("%s\n", vs_static_name(k));
      return 0;
    } else { usage(); return 2; }
  }
  int rc = 0;
  if (!planpath.empty()) {
    Plan p; std::string err;
    if (!plan_read(p, planpath.c_str(), err)) { fprintf(stderr, "plan: %s\n", err.c_str()); return 2; }
    o.check = p.check; o.seed = p.seed; o.replay = &p;
    o.thorough = p.cfg_int("thorough", 0) != 0;
    Result res;
    dispatch(o, res);
    res.str["flavour"] = flavour_name();
    res.num["seed"] = (double)0;
    res.str["seed"] = std::to_string(o.seed);
    res.num.erase("seed");
    res.print(stdout);
    return res.status == "ok" ? 0 : res.status == "violation" ? 1 : 2;
  }
  if (o.check.empty()) { usage(); return 2; }
  if (have_seed) { from = 0; to = 1; }
  if (from < 0 || to < from) { usage(); return 2; }
  for (long i = from; i < to; ++i) {
    RunOpts r = o;
    r.seed = have_seed ? o.seed : run_seed(base, (uint64_t)i);
    Plan rec;
    if (!emit.empty()) { r.record = &rec; r.emit_path = emit; }
    Result res;
    dispatch(r, res);
    res.str["flavour"] = flavour_name();
    res.str["seed"] = std::to_string(r.seed);
    res.num["run"] = (double)i;
    res.print(stdout);
    if (!emit.empty()) {
      rec.check = r.check; rec.seed = r.seed; rec.set("thorough", r.thorough ? 1 : 0);
      FILE* f = fopen(emit.c_str(), "w");
      if (f) { plan_write(rec, f); fclose(f); }
    }
    if (res.status == "violation") rc = 1;
    else if (res.status != "ok" && rc == 0) rc = 2;
  }
  return rc;
}
