#!/bin/bash
# One-off reach measurement: which lines of /repo/include/manif do the five simulations execute?
# Builds a clang source-coverage flavour in a scratch directory, runs a few hundred runs of every check, merges the
# profiles and prints llvm-cov's per-file summary for the library headers.  usage: coverage.sh [runs per check]
N="${1:-300}"
VERIF="$(cd "$(dirname "$0")/.." && pwd)"
export VERIF_BUILD_DIR=/tmp/vsim_cov
"$VERIF/bin/check" --build cov | tail -1
BIN=$VERIF_BUILD_DIR/cov/manifsim
PROF=/tmp/vsim_cov/prof; rm -rf $PROF; mkdir -p $PROF
for c in C08 C03 C09 C10; do
  seq 0 15 | xargs -P 16 -I{} sh -c "LLVM_PROFILE_FILE=$PROF/$c-{}-%8m.profraw $BIN --check $c --base 5 --from \$(( {} * $N / 16 )) --to \$(( ({} + 1) * $N / 16 )) > /dev/null 2>&1"
done
seq 0 $((N-1)) | xargs -P 16 -I{} sh -c "LLVM_PROFILE_FILE=$PROF/C14-{}-%8m.profraw $BIN --check C14 --base 5 --from {} --to \$(({}+1)) > /dev/null 2>&1"
llvm-profdata-14 merge -sparse $PROF/*.profraw -o /tmp/vsim_cov/all.profdata
llvm-cov-14 report $BIN -instr-profile=/tmp/vsim_cov/all.profdata /repo/include/manif 2>/dev/null | sed 's#/repo/include/manif/##' > /tmp/vsim_cov/report.txt
cat /tmp/vsim_cov/report.txt
