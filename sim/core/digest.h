#ifndef VSIM_DIGEST_H
#define VSIM_DIGEST_H
#include <cstdint>
#include <cstddef>
#include <cstring>

namespace vsim {

struct Fnv {
  uint64_t h;
  Fnv() : h(1469598103934665603ull) {}
  void bytes(const void* p, size_t n) {
    const unsigned char* c = (const unsigned char*)p;
    for (size_t i = 0; i < n; ++i) { h ^= c[i]; h *= 1099511628211ull; }
  }
  void u64(uint64_t v) { bytes(&v, 8); }
  void i32(int v) { bytes(&v, 4); }
  void dbl(double d) { bytes(&d, 8); }
  void str(const char* s) { bytes(s, strlen(s)); u64(0xff); }
};

inline uint64_t fnv_bytes(const void* p, size_t n) { Fnv f; f.bytes(p, n); return f.h; }

}  // namespace vsim
#endif
