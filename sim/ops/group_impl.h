// Typed executor of the operation vocabulary for one group type G.
// Included by one generated translation unit per (group, scalar); compiled with
// the flavour's instrumentation.  C++11 only (same dialect as the repo's tests).
#ifndef VSIM_GROUP_IMPL_H
#define VSIM_GROUP_IMPL_H

#include <manif/manif.h>
#include <manif/algorithms/interpolation.h>
#include <manif/algorithms/average.h>
#include <manif/algorithms/decasteljau.h>
#include <Eigen/StdVector>

#include <vector>
#include <stdexcept>
#include <type_traits>
#include <cstdlib>
#include <sstream>

#include "optypes.h"
#include "accessors.h"

namespace vsim {

// ---------------------------------------------------------------------------
// layout descriptors
// ---------------------------------------------------------------------------
struct LayoutAcc {
  int n_unit, n_ang; Block unit[4], ang[4];
  LayoutAcc() : n_unit(0), n_ang(0) {}
  void add_unit(int off, int len) { if (n_unit < 4) { unit[n_unit].off = off; unit[n_unit].len = len; ++n_unit; } }
  void add_ang(int off, int len) { if (n_ang < 4) { ang[n_ang].off = off; ang[n_ang].len = len; ++n_ang; } }
};

template <class G> struct Layout;  // fill(acc, rep_off, dof_off); caps

template <class S> struct Layout<manif::SO2<S> > {
  static void fill(LayoutAcc& a, int r, int d) { a.add_unit(r + 0, 2); a.add_ang(d + 0, 1); }
  static unsigned caps() { return CAP_NORMALIZE | CAP_ROTATION | CAP_SMALLADJ; }
};
template <class S> struct Layout<manif::SE2<S> > {
  static void fill(LayoutAcc& a, int r, int d) { a.add_unit(r + 2, 2); a.add_ang(d + 2, 1); }
  static unsigned caps() { return CAP_NORMALIZE | CAP_ROTATION | CAP_SMALLADJ; }
};
template <class S> struct Layout<manif::SO3<S> > {
  static void fill(LayoutAcc& a, int r, int d) { a.add_unit(r + 0, 4); a.add_ang(d + 0, 3); }
  static unsigned caps() { return CAP_NORMALIZE | CAP_ROTATION | CAP_SMALLADJ | CAP_QUAT; }
};
template <class S> struct Layout<manif::SE3<S> > {
  static void fill(LayoutAcc& a, int r, int d) { a.add_unit(r + 3, 4); a.add_ang(d + 3, 3); }
  static unsigned caps() { return CAP_NORMALIZE | CAP_ROTATION | CAP_SMALLADJ | CAP_ASSO3; }
};
template <class S> struct Layout<manif::SE_2_3<S> > {
  static void fill(LayoutAcc& a, int r, int d) { a.add_unit(r + 3, 4); a.add_ang(d + 3, 3); }
  static unsigned caps() { return CAP_NORMALIZE | CAP_ROTATION | CAP_SMALLADJ | CAP_ASSO3; }
};
template <class S> struct Layout<manif::SGal3<S> > {
  static void fill(LayoutAcc& a, int r, int d) { a.add_unit(r + 3, 4); a.add_ang(d + 6, 3); }
  // SGal3Tangent<float>::smallAdj() does not compile on the pinned tree (DESIGN section 6)
  static unsigned caps() {
    return CAP_NORMALIZE | CAP_ROTATION | CAP_ASSO3 | CAP_CROSS | (std::is_same<S, double>::value ? CAP_SMALLADJ : 0u);
  }
};
template <class S, unsigned int N> struct Layout<manif::Rn<S, N> > {
  static void fill(LayoutAcc&, int, int) {}
  static unsigned caps() { return CAP_RN | CAP_SMALLADJ; }
};

template <class B, int I, int N> struct BundleFill {
  static void run(LayoutAcc& a, int r, int d) {
    typedef typename B::template Element<I> E;
    Layout<E>::fill(a, r + std::get<I>(manif::internal::traits<B>::RepSizeIdx),
                    d + std::get<I>(manif::internal::traits<B>::DoFIdx));
    BundleFill<B, I + 1, N>::run(a, r, d);
  }
};
template <class B, int N> struct BundleFill<B, N, N> { static void run(LayoutAcc&, int, int) {} };
template <class B, int I, int N> struct BundleCaps {
  static unsigned run() { return (Layout<typename B::template Element<I> >::caps() & CAP_CROSS) | BundleCaps<B, I + 1, N>::run(); }
};
template <class B, int N> struct BundleCaps<B, N, N> { static unsigned run() { return 0; } };

template <class S, template <typename> class... T> struct Layout<manif::Bundle<S, T...> > {
  typedef manif::Bundle<S, T...> B;
  static void fill(LayoutAcc& a, int r, int d) { BundleFill<B, 0, (int)sizeof...(T)>::run(a, r, d); }
  static unsigned caps() { return CAP_BUNDLE | CAP_SMALLADJ | BundleCaps<B, 0, (int)sizeof...(T)>::run(); }
};

template <class S> struct OtherScalar;
template <> struct OtherScalar<double> { typedef float type; };
template <> struct OtherScalar<float> { typedef double type; };

// ---------------------------------------------------------------------------
// state
// ---------------------------------------------------------------------------
template <class G> struct State {
  typedef typename G::Scalar S;
  typedef typename G::Tangent T;
  typedef typename G::Vector V;
  enum { NE = 10, NT = 8, NP = 3 };
  std::vector<G, Eigen::aligned_allocator<G> > e;
  std::vector<T, Eigen::aligned_allocator<T> > t;
  std::vector<V, Eigen::aligned_allocator<V> > p;
  std::vector<G, Eigen::aligned_allocator<G> > vec;
  S* ebuf[NE];
  S* tbuf[NT];
  bool own_bufs;
  // persistent views of the buffers, created once per state (a user keeps a Map around and calls it many times;
  // shared between threads in C14).  V_FRESH in OpRec::variant asks for a temporary view instead.
  std::vector<Eigen::Map<G> > vm;
  std::vector<Eigen::Map<const G> > vc;
  std::vector<Eigen::Map<T> > tm;
  std::vector<Eigen::Map<const T> > tc;
};

// ---------------------------------------------------------------------------
// helpers
// ---------------------------------------------------------------------------
template <class D> inline void put(double* dst, int& n, const Eigen::MatrixBase<D>& m) {
  const int rows = (int)m.rows(), cols = (int)m.cols();
  n = rows * cols;
  if (n > MAXV) { n = MAXV; }
  int k = 0;
  for (int c = 0; c < cols; ++c)
    for (int r = 0; r < rows; ++r) { if (k < MAXV) dst[k] = (double)m(r, c); ++k; }
}
inline void put_scalar(double* dst, int& n, double x) { n = 1; dst[0] = x; }

template <class S, int R, int C> struct JO {
  typedef Eigen::Matrix<S, R, C> J;
  typedef Eigen::Matrix<S, R + 3, C + 2> Big;
  bool want, blk;
  J plain;
  Big big;
  JO(bool w, bool b) : want(w), blk(b) {
    plain.setConstant(S(canary()));
    big.setConstant(S(canary()));
  }
  tl::optional<Eigen::Ref<J> > ref() {
    if (!want) return tl::optional<Eigen::Ref<J> >();
    if (blk) { Eigen::Ref<J> r(big.template block<R, C>(2, 1)); return tl::optional<Eigen::Ref<J> >(r); }
    Eigen::Ref<J> r(plain);
    return tl::optional<Eigen::Ref<J> >(r);
  }
  void fin(Out& out, int which) {
    double* dst = which == 1 ? out.j1 : out.j2;
    int& n = which == 1 ? out.n1 : out.n2;
    n = 0;
    if (!want) return;
    if (blk) {
      put(dst, n, big.template block<R, C>(2, 1));
      const S cv = S(canary());
      for (int c = 0; c < C + 2; ++c)
        for (int r = 0; r < R + 3; ++r) {
          const bool inside = (r >= 2 && r < 2 + R && c >= 1 && c < 1 + C);
          if (!inside && std::memcmp(&big(r, c), &cv, sizeof(S)) != 0) out.flags |= 1;
        }
    } else {
      put(dst, n, plain);
    }
  }
};

template <class G> struct Exec {
  typedef State<G> St;
  typedef typename G::Scalar S;
  typedef typename G::Tangent T;
  typedef typename G::Vector V;
  typedef typename G::Jacobian Jac;
  typedef typename OtherScalar<S>::type OS;
  enum { Dim = G::Dim, DoF = G::DoF, Rep = G::RepSize };
  typedef JO<S, DoF, DoF> JJ;
  typedef Eigen::Map<G> MG;
  typedef Eigen::Map<const G> CG;
  typedef Eigen::Map<T> MT;
  typedef Eigen::Map<const T> CT;

  template <class X> static void put_e(Out& out, const X& x) { put(out.v, out.nv, x.coeffs()); }
  // operator<< : the printed text, as character codes (so that it takes part in digests and comparisons)
  template <class X> static void stream_out(const X& x, Out& out) {
    std::ostringstream os;
    os.precision(17);
    os << x;
    const std::string str = os.str();
    out.nv = 0;
    for (size_t i = 0; i < str.size() && out.nv < MAXV; ++i) out.v[out.nv++] = (double)(unsigned char)str[i];
  }

  // ---- capability dependent pieces ----------------------------------------
  // BundleBase::transform() does not compile on the pinned tree (DESIGN section 6)
  template <class A> static void transform_of(const A& a, Out& out, std::true_type) { put(out.v, out.nv, a.transform()); }
  template <class A> static void transform_of(const A&, Out& out, std::false_type) { out.status = 9; }
  template <class A> static void rotation_of(const A& a, Out& out, std::true_type) { put(out.v, out.nv, a.rotation()); }
  template <class A> static void rotation_of(const A&, Out& out, std::false_type) { out.status = 9; }
  template <class A> static void normalize_of(A& a, Out& out, std::true_type) { a.normalize(); put_e(out, a); }
  template <class A> static void normalize_of(A&, Out& out, std::false_type) { out.status = 9; }
  template <class TA> static void smalladj_of(const TA& t, Out& out, std::true_type) { put(out.v, out.nv, t.smallAdj()); }
  template <class TA> static void smalladj_of(const TA&, Out& out, std::false_type) { out.status = 9; }
  template <class TA, class TB> static void bracket_of(const TA& a, const TB& b, Out& out, std::true_type) { put_e(out, a.bracket(b)); }
  template <class TA, class TB> static void bracket_of(const TA&, const TB&, Out& out, std::false_type) { out.status = 9; }

  struct HasNormalize : std::integral_constant<bool, !(std::is_base_of<manif::RnBase<G>, G>::value || std::is_base_of<manif::BundleBase<G>, G>::value)> {};
  struct HasRotation : HasNormalize {};
  struct IsSGal3f : std::integral_constant<bool, std::is_same<G, manif::SGal3<float> >::value> {};
  struct HasSmallAdj : std::integral_constant<bool, !IsSGal3f::value> {};
  struct HasAsSO3 : std::integral_constant<bool, std::is_base_of<manif::SE3Base<G>, G>::value ||
                                                   std::is_base_of<manif::SE_2_3Base<G>, G>::value ||
                                                   std::is_base_of<manif::SGal3Base<G>, G>::value> {};
  struct IsBundle : std::integral_constant<bool, std::is_base_of<manif::BundleBase<G>, G>::value> {};

  // sub-view access ---------------------------------------------------------
  template <class A> static void sub_log(const A& a, Out& out, std::true_type, std::false_type) {
    JO<S, 3, 3> j(false, false);
    put_e(out, a.asSO3().log());
  }
  template <class A> static void sub_log(const A& a, Out& out, std::false_type, std::true_type) {
    put_e(out, a.template element<0>().log());
    put(out.j1, out.n1, a.template element<G::BundleSize - 1>().log().coeffs());
  }
  template <class A> static void sub_log(const A&, Out& out, std::false_type, std::false_type) { out.status = 9; }

  // (sub-views are bound to const named objects: calling data() on an rvalue Map<const ...> selects the
  //  non-const overload, which does not compile on the pinned tree)
  template <class A> static bool sub_offsets_ok(const A& a, std::true_type, std::false_type) {
    const Eigen::Map<const manif::SO3<S> > v(a.asSO3());
    return (const void*)v.data() == (const void*)(a.data() + 3);
  }
  template <class A> static bool sub_offsets_ok(const A& a, std::false_type, std::true_type) {
    enum { L = G::BundleSize - 1 };
    const typename G::template MapConstElement<0> v0(a.template element<0>());
    const typename G::template MapConstElement<1> v1(a.template element<1>());
    const typename G::template MapConstElement<L> vl(a.template element<L>());
    return (v0.data() - a.data()) == std::get<0>(manif::internal::traits<G>::RepSizeIdx) &&
           (v1.data() - a.data()) == std::get<1>(manif::internal::traits<G>::RepSizeIdx) &&
           (vl.data() - a.data()) == std::get<L>(manif::internal::traits<G>::RepSizeIdx);
  }
  template <class A> static bool sub_offsets_ok(const A&, std::false_type, std::false_type) { return true; }
  static bool copy_ok(const G& a) { const G c(a); return std::memcmp(c.data(), a.data(), sizeof(S) * Rep) == 0 && c.data() != a.data(); }
  static bool copy_ok(const MG& a) { MG c(a); return c.data() == a.data(); }
  static bool copy_ok(const CG&) { return true; }   // Map<const> is move-only on the pinned tree

  // write through a sub view: rotation part (asSO3) or a bundle element := the one of b.
  // (sources are bound to named views first: assigning from an rvalue Map<const ...> selects the
  //  move overload of the MAP_ASSIGN_OP family, which does not compile on the pinned tree)
  template <class A, class B> static void sub_write(A& a, const B& b, int how, Out& out, std::true_type, std::false_type) {
    const Eigen::Map<const manif::SO3<S> > bs(b.asSO3());
    Eigen::Map<manif::SO3<S> > as(a.asSO3());
    if (how % 3 == 0) as = bs;
    else if (how % 3 == 1) as.setIdentity();
    else as *= bs;
    put_e(out, a);
  }
  template <class A, class B> static void sub_write(A& a, const B& b, int how, Out& out, std::false_type, std::true_type) {
    enum { L = G::BundleSize - 1 };
    if (how % 3 == 0) {
      const typename G::template MapConstElement<L> bs(b.template element<L>());
      typename G::template MapElement<L> as(a.template element<L>());
      as = bs;
    } else if (how % 3 == 1) {
      typename G::template MapElement<0> as(a.template element<0>());
      as.setIdentity();
    } else {
      const typename G::template MapConstElement<1> bs(b.template element<1>());
      typename G::template MapElement<1> as(a.template element<1>());
      as *= bs;
    }
    put_e(out, a);
  }
  template <class A, class B> static void sub_write(A&, const B&, int, Out& out, std::false_type, std::false_type) { out.status = 9; }

  // ---- results bound to const references ------------------------------------------------------------------------
  // User code binds results to `const auto&` to avoid copies.  Whatever the library returns (a value whose lifetime
  // is extended, or a reference into the unchanged operand) must stay valid and unchanged while other objects of the
  // same type are used.  bit3 of Out::flags reports a change; the held values themselves are the outputs.
  typedef Eigen::Matrix<S, Eigen::Dynamic, Eigen::Dynamic> DynM;
  template <class D1, class D2> static bool same_bits(const Eigen::MatrixBase<D1>& x, const Eigen::MatrixBase<D2>& y) {
    if (x.rows() != y.rows() || x.cols() != y.cols()) return false;
    for (int c = 0; c < x.cols(); ++c)
      for (int r = 0; r < x.rows(); ++r) { const S u = x(r, c), v = y(r, c); if (std::memcmp(&u, &v, sizeof(S)) != 0) return false; }
    return true;
  }
  template <class A, class B> static double activity(St& st, const A& a, const B& b) {
    JJ j1(true, false), j2(true, false);
    double acc = 0;
    acc += (double)b.inverse(j1.ref()).coeffs()(0);
    acc += (double)b.log(j1.ref()).coeffs()(0);
    acc += (double)b.adj()(0, 0);
    acc += (double)a.compose(b, j1.ref(), j2.ref()).coeffs()(0);
    acc += (double)b.between(a, j1.ref(), j2.ref()).coeffs()(0);
    acc += (double)b.act(st.p[0])(0);
    acc += (double)b.rminus(a).coeffs()(0);
    acc += (double)G::Identity().coeffs()(0);
    return acc;
  }
  template <class A, class B> static void hold_rot(St& st, const A& a, const B& b, Out& out, std::true_type) {
    const auto& R = a.rotation();
    const auto& Tf = a.transform();
    const DynM R0 = R, T0 = Tf, Rb0 = b.rotation();
    double acc = activity(st, a, b);
    acc += (double)b.rotation()(0, 0) + (double)b.transform()(0, 0);
    if (!same_bits(R, R0) || !same_bits(Tf, T0)) out.flags |= 8;
    // two results of the same type alive inside one expression
    const DynM rel = a.rotation().transpose() * b.rotation();
    const DynM rel0 = R0.transpose() * Rb0;
    if (rel0.allFinite() && !((rel - rel0).cwiseAbs().maxCoeff() <= S(64) * std::numeric_limits<S>::epsilon())) out.flags |= 8;
    put(out.j2, out.n2, R);
    if (out.nv < MAXV) out.v[out.nv++] = acc;
  }
  template <class A, class B> static void hold_rot(St& st, const A& a, const B& b, Out& out, std::false_type) {
    const double acc = activity(st, a, b);
    if (out.nv < MAXV) out.v[out.nv++] = acc;
  }
  template <class A, class B> static void hold(St& st, const A& a, const B& b, const OpRec&, Out& out) {
    const auto& inv = a.inverse();
    const auto& lg = a.log();
    const auto& ad = a.adj();
    const auto& co = a.coeffs();
    const Eigen::Matrix<S, Rep, 1> inv0 = inv.coeffs(), co0 = co;
    const Eigen::Matrix<S, DoF, 1> lg0 = lg.coeffs();
    const Jac ad0 = ad;
    out.nv = 0;
    hold_rot(st, a, b, out, HasRotation());
    double acc = out.nv ? out.v[out.nv - 1] : 0.0;
    if (!Acc<G>::held(a, b, acc)) out.flags |= 8;
    if (!same_bits(inv.coeffs(), inv0) || !same_bits(lg.coeffs(), lg0) || !same_bits(ad, ad0) || !same_bits(co, co0)) out.flags |= 8;
    Eigen::Matrix<S, Rep + DoF + 1, 1> all;
    all.template head<Rep>() = inv.coeffs(); all.template segment<DoF>(Rep) = lg.coeffs(); all(Rep + DoF) = S(acc);
    put(out.v, out.nv, all);
    put(out.j1, out.n1, ad);
  }
  template <class A> static void hold_b(St& st, const A& a, const OpRec& op, Out& out) {
    switch (op.kb) {
      case K_OWN: hold(st, a, st.e[op.b], op, out); break;
      case K_MAP: { const MG& cm = st.vm[op.b]; hold(st, a, cm, op, out); } break;
      default: hold(st, a, st.vc[op.b], op, out); break;
    }
  }
  template <class TA, class TB> static void thold(const TA& a, const TB& b, Out& out) {
    const auto& h = a.hat();
    const auto& ex = a.exp();
    const auto& rj = a.rjac();
    const auto& lj = a.ljac();
    const auto& ng = -a;
    const auto& co = a.coeffs();
    const DynM h0 = h;
    const Eigen::Matrix<S, Rep, 1> ex0 = ex.coeffs();
    const Jac rj0 = rj, lj0 = lj;
    const Eigen::Matrix<S, DoF, 1> ng0 = ng.coeffs(), co0 = co;
    JJ j1(true, false);
    double acc = 0;
    acc += (double)b.hat()(0, 0);
    acc += (double)b.exp(j1.ref()).coeffs()(0);
    acc += (double)b.rjac()(0, 0) + (double)b.ljac()(0, 0) + (double)b.rjacinv()(0, 0) + (double)b.ljacinv()(0, 0);
    acc += (double)(a + b).coeffs()(0) + (double)(-b).coeffs()(0) + (double)b.inner(a);
    acc += (double)T::Zero().coeffs()(0);
    if (!same_bits(h, h0) || !same_bits(ex.coeffs(), ex0) || !same_bits(rj, rj0) || !same_bits(lj, lj0) ||
        !same_bits(ng.coeffs(), ng0) || !same_bits(co, co0)) out.flags |= 8;
    Eigen::Matrix<S, Rep + DoF + 1, 1> all;
    all.template head<Rep>() = ex.coeffs(); all.template segment<DoF>(Rep) = ng.coeffs(); all(Rep + DoF) = S(acc);
    put(out.v, out.nv, all);
    put(out.j1, out.n1, rj);
    put(out.j2, out.n2, h);
  }

  // ---- element x element -----------------------------------------------------
  template <class A, class B> static void ee(const A& a, const B& b, const OpRec& op, Out& out) {
    const bool w1 = op.mask & 1, w2 = op.mask & 2;
    const bool b1 = op.variant & V_BLOCK1, b2 = op.variant & V_BLOCK2;
    switch (op.op) {
      case OP_COMPOSE: { JJ j1(w1, b1), j2(w2, b2); put_e(out, a.compose(b, j1.ref(), j2.ref())); j1.fin(out, 1); j2.fin(out, 2); } break;
      case OP_BETWEEN: { JJ j1(w1, b1), j2(w2, b2); put_e(out, a.between(b, j1.ref(), j2.ref())); j1.fin(out, 1); j2.fin(out, 2); } break;
      case OP_RMINUS: { JJ j1(w1, b1), j2(w2, b2); put_e(out, a.rminus(b, j1.ref(), j2.ref())); j1.fin(out, 1); j2.fin(out, 2); } break;
      case OP_LMINUS: { JJ j1(w1, b1), j2(w2, b2); put_e(out, a.lminus(b, j1.ref(), j2.ref())); j1.fin(out, 1); j2.fin(out, 2); } break;
      case OP_MINUS: { JJ j1(w1, b1), j2(w2, b2); put_e(out, a.minus(b, j1.ref(), j2.ref())); j1.fin(out, 1); j2.fin(out, 2); } break;
      case OP_MUL: put_e(out, a * b); break;
      case OP_SUB: put_e(out, a - b); break;
      case OP_ISAPPROX: put_scalar(out.v, out.nv, a.isApprox(b, S(op.s)) ? 1.0 : 0.0); break;
      case OP_EQ: put_scalar(out.v, out.nv, (a == b) ? 1.0 : 0.0); break;
      default: out.status = 9;
    }
  }
  template <class A> static void ee_b(St& st, const A& a, const OpRec& op, Out& out) {
    switch (op.kb) {
      case K_OWN: ee(a, st.e[op.b], op, out); break;
      case K_MAP: ee(a, st.vm[op.b], op, out); break;
      default: ee(a, st.vc[op.b], op, out); break;
    }
  }

  // ---- element x tangent -----------------------------------------------------
  template <class A, class TB> static void et(const A& a, const TB& t, const OpRec& op, Out& out) {
    const bool w1 = op.mask & 1, w2 = op.mask & 2;
    const bool b1 = op.variant & V_BLOCK1, b2 = op.variant & V_BLOCK2;
    switch (op.op) {
      case OP_RPLUS: { JJ j1(w1, b1), j2(w2, b2); put_e(out, a.rplus(t, j1.ref(), j2.ref())); j1.fin(out, 1); j2.fin(out, 2); } break;
      case OP_LPLUS: { JJ j1(w1, b1), j2(w2, b2); put_e(out, a.lplus(t, j1.ref(), j2.ref())); j1.fin(out, 1); j2.fin(out, 2); } break;
      case OP_PLUS: { JJ j1(w1, b1), j2(w2, b2); put_e(out, a.plus(t, j1.ref(), j2.ref())); j1.fin(out, 1); j2.fin(out, 2); } break;
      case OP_ADD: put_e(out, a + t); break;
      default: out.status = 9;
    }
  }
  template <class A> static void et_b(St& st, const A& a, const OpRec& op, Out& out) {
    switch (op.kb) {
      case K_OWN: et(a, st.t[op.b], op, out); break;
      case K_MAP: et(a, st.tm[op.b], op, out); break;
      default: et(a, st.tc[op.b], op, out); break;
    }
  }

  // ---- element unary -----------------------------------------------------------
  template <class A> static void elem(St& st, const A& a, const OpRec& op, Out& out) {
    const bool w1 = op.mask & 1, w2 = op.mask & 2;
    const bool b1 = op.variant & V_BLOCK1, b2 = op.variant & V_BLOCK2;
    switch (op.op) {
      case OP_INVERSE: { JJ j1(w1, b1); put_e(out, a.inverse(j1.ref())); j1.fin(out, 1); } break;
      case OP_LOG:
        if (op.variant & V_SUB) { sub_log(a, out, HasAsSO3(), IsBundle()); break; }
        { JJ j1(w1, b1); put_e(out, a.log(j1.ref())); j1.fin(out, 1); } break;
      case OP_LIFT: { JJ j1(w1, b1); put_e(out, a.lift(j1.ref())); j1.fin(out, 1); } break;
      case OP_ADJ: put(out.v, out.nv, a.adj()); break;
      case OP_TRANSFORM: transform_of(a, out, std::integral_constant<bool, !IsBundle::value>()); break;
      case OP_ROTATION: rotation_of(a, out, HasRotation()); break;
      case OP_COEFFS:
        if (op.variant & V_ALT) {   // element-wise read access: operator[], data()[i], size()
          out.nv = 0;
          for (unsigned i = 0; i < a.size(); ++i) { out.v[out.nv++] = (double)a[i]; }
          for (int i = 0; i < Rep; ++i) if ((double)a.data()[i] != out.v[i]) out.flags |= 2;
        } else put_e(out, a);
        break;
      case OP_STREAM: stream_out(a, out); break;
      case OP_CONSTRUCT: {   // owning object (and a std::vector of them) built from whatever kind the operand is
        const G x(a);
        G y; y = a;
        std::vector<G, Eigen::aligned_allocator<G> > v; v.push_back(a); v.emplace_back(a);
        { const G z(a.coeffs()); if (!same_bits(z.coeffs(), x.coeffs())) out.flags |= 4; }   // from the coefficient vector
        put_e(out, x); put(out.j1, out.n1, y.coeffs()); put(out.j2, out.n2, v[1].coeffs());
      } break;
      case OP_ACCESSORS: { Collector c(out); if (!Acc<G>::read(a, c)) out.status = 9; } break;
      case OP_HOLD: hold_b(st, a, op, out); break;
      case OP_CTOR: { G r; if (Acc<G>::ctor(a, (int)op.c, r)) put_e(out, r); else out.status = 9; } break;
      case OP_DATAPTR: {
        // v[0]: the view reads the user's buffer in place; v[1]: internal sub-views sit at the documented offsets
        const void* expect = (op.ka == K_OWN) ? (const void*)st.e[op.a].data() : (const void*)st.ebuf[op.a];
        out.nv = 3;
        out.v[0] = ((const void*)a.data() == expect && (const void*)a.coeffs().data() == expect) ? 1.0 : 0.0;
        out.v[1] = sub_offsets_ok(a, HasAsSO3(), IsBundle()) ? 1.0 : 0.0;
        out.v[2] = copy_ok(a) ? 1.0 : 0.0;   // a copy of a view is a view of the same buffer; a copy of an object has the same coefficients
      } break;
      case OP_CASTRT: {
        typename G::template LieGroupTemplate<OS> o = a.template cast<OS>();
        put(out.j1, out.n1, o.coeffs());
        put_e(out, o.template cast<S>());
      } break;
      case OP_ACT: {
        JO<S, Dim, DoF> j1(w1, b1);
        JO<S, Dim, Dim> j2(w2, b2);
        const V& p = st.p[op.b % St::NP];
        put(out.v, out.nv, a.act(p, j1.ref(), j2.ref()));
        j1.fin(out, 1); j2.fin(out, 2);
      } break;
      case OP_COMPOSE: case OP_BETWEEN: case OP_RMINUS: case OP_LMINUS: case OP_MINUS:
      case OP_MUL: case OP_SUB: case OP_ISAPPROX: case OP_EQ:
        ee_b(st, a, op, out); break;
      case OP_RPLUS: case OP_LPLUS: case OP_PLUS: case OP_ADD:
        et_b(st, a, op, out); break;
      default: out.status = 9;
    }
  }

  // tangent views: sub-views sit at the documented offsets; a copy of a view views the same buffer
  template <class TA> static bool tsub_offsets_ok(const TA& a, std::true_type, std::false_type) {
    const Eigen::Map<const manif::SO3Tangent<S> > v(a.asSO3());
    LayoutAcc acc; Layout<G>::fill(acc, 0, 0);
    return acc.n_ang == 1 && (const void*)v.data() == (const void*)(a.data() + acc.ang[0].off);
  }
  template <class TA> static bool tsub_offsets_ok(const TA& a, std::false_type, std::true_type) {
    enum { L = G::BundleSize - 1 };
    const typename T::template MapConstElement<0> v0(a.template element<0>());
    const typename T::template MapConstElement<1> v1(a.template element<1>());
    const typename T::template MapConstElement<L> vl(a.template element<L>());
    return (v0.data() - a.data()) == std::get<0>(manif::internal::traits<G>::DoFIdx) &&
           (v1.data() - a.data()) == std::get<1>(manif::internal::traits<G>::DoFIdx) &&
           (vl.data() - a.data()) == std::get<L>(manif::internal::traits<G>::DoFIdx);
  }
  template <class TA> static bool tsub_offsets_ok(const TA&, std::false_type, std::false_type) { return true; }
  static bool tcopy_ok(const T& a) { const T c(a); return std::memcmp(c.data(), a.data(), sizeof(S) * DoF) == 0 && c.data() != a.data(); }
  static bool tcopy_ok(const MT& a) { MT c(a); return c.data() == a.data(); }
  static bool tcopy_ok(const CT&) { return true; }   // Map<const> is move-only on the pinned tree

  // ---- tangent ---------------------------------------------------------------------
  template <class TA, class TB> static void tt(const TA& a, const TB& b, const OpRec& op, Out& out) {
    const bool w1 = op.mask & 1, w2 = op.mask & 2;
    const bool b1 = op.variant & V_BLOCK1, b2 = op.variant & V_BLOCK2;
    switch (op.op) {
      case OP_INNER: put_scalar(out.v, out.nv, (double)a.inner(b)); break;
      // bracket() only instantiates for owning tangents on the pinned tree (smallAdj()*Map does not compile)
      case OP_BRACKET: bracket_of(a, b, out, std::integral_constant<bool, HasSmallAdj::value && std::is_same<TA, T>::value && std::is_same<TB, T>::value>()); break;
      case OP_TPLUS: { JJ j1(w1, b1), j2(w2, b2); put_e(out, a.plus(b, j1.ref(), j2.ref())); j1.fin(out, 1); j2.fin(out, 2); } break;
      case OP_TMINUS: { JJ j1(w1, b1), j2(w2, b2); put_e(out, a.minus(b, j1.ref(), j2.ref())); j1.fin(out, 1); j2.fin(out, 2); } break;
      case OP_T_ADD_T: put_e(out, a + b); break;
      case OP_T_SUB_T: put_e(out, a - b); break;
      case OP_T_ISAPPROX: put_scalar(out.v, out.nv, a.isApprox(b, S(op.s)) ? 1.0 : 0.0); break;
      case OP_T_HOLD: thold(a, b, out); break;
      default: out.status = 9;
    }
  }
  template <class TA, class B> static void tx(const TA& t, const B& x, const OpRec& op, Out& out) {
    const bool w1 = op.mask & 1, w2 = op.mask & 2;
    const bool b1 = op.variant & V_BLOCK1, b2 = op.variant & V_BLOCK2;
    switch (op.op) {
      case OP_T_RPLUS_X: { JJ j1(w1, b1), j2(w2, b2); put_e(out, t.rplus(x, j1.ref(), j2.ref())); j1.fin(out, 1); j2.fin(out, 2); } break;
      case OP_T_LPLUS_X: { JJ j1(w1, b1), j2(w2, b2); put_e(out, t.lplus(x, j1.ref(), j2.ref())); j1.fin(out, 1); j2.fin(out, 2); } break;
      case OP_T_PLUS_X: { JJ j1(w1, b1), j2(w2, b2); put_e(out, t.plus(x, j1.ref(), j2.ref())); j1.fin(out, 1); j2.fin(out, 2); } break;
      default: put_e(out, t + x); break;
    }
  }
  template <class TA> static void tt_b(St& st, const TA& a, const OpRec& op, Out& out) {
    switch (op.kb) {
      case K_OWN: tt(a, st.t[op.b], op, out); break;
      case K_MAP: tt(a, st.tm[op.b], op, out); break;
      default: tt(a, st.tc[op.b], op, out); break;
    }
  }
  template <class TA> static void tan(St& st, const TA& t, const OpRec& op, Out& out) {
    const bool w1 = op.mask & 1, w2 = op.mask & 2;
    const bool b1 = op.variant & V_BLOCK1, b2 = op.variant & V_BLOCK2;
    switch (op.op) {
      case OP_EXP: { JJ j1(w1, b1); put_e(out, t.exp(j1.ref())); j1.fin(out, 1); } break;
      case OP_RETRACT: { JJ j1(w1, b1); put_e(out, t.retract(j1.ref())); j1.fin(out, 1); } break;
      case OP_HAT: put(out.v, out.nv, t.hat()); break;
      case OP_RJAC: put(out.v, out.nv, t.rjac()); break;
      case OP_LJAC: put(out.v, out.nv, t.ljac()); break;
      case OP_RJACINV: put(out.v, out.nv, t.rjacinv()); break;
      case OP_LJACINV: put(out.v, out.nv, t.ljacinv()); break;
      case OP_SMALLADJ: smalladj_of(t, out, HasSmallAdj()); break;
      case OP_WNORM: put_scalar(out.v, out.nv, (double)t.weightedNorm()); break;
      case OP_SQWNORM: put_scalar(out.v, out.nv, (double)t.squaredWeightedNorm()); break;
      case OP_T_NEG: put_e(out, -t); break;
      case OP_T_SCALE: if (op.variant & V_ALT) put_e(out, S(op.s) * t); else put_e(out, t * S(op.s)); break;
      case OP_T_GENERATOR_M: put(out.v, out.nv, t.generator((int)(signed char)op.c)); break;
      case OP_T_INNERW_M: put(out.v, out.nv, t.innerWeights()); break;
      case OP_T_CASTRT: {
        typename T::template TangentTemplate<OS> o = t.template cast<OS>();
        put_e(out, o.template cast<S>());
      } break;
      case OP_JT_MUL: jt_mul(t, out, std::is_same<TA, T>()); break;
      case OP_T_STREAM: stream_out(t, out); break;
      case OP_T_DATAPTR: {
        const void* expect = (op.ka == K_OWN) ? (const void*)st.t[op.a].data() : (const void*)st.tbuf[op.a];
        out.nv = 3;
        out.v[0] = ((const void*)t.data() == expect && (const void*)t.coeffs().data() == expect) ? 1.0 : 0.0;
        out.v[1] = tsub_offsets_ok(t, HasAsSO3(), IsBundle()) ? 1.0 : 0.0;
        out.v[2] = tcopy_ok(t) ? 1.0 : 0.0;
      } break;
      case OP_T_CONSTRUCT: {   // owning tangents built from whatever kind the operand is, and from its coefficient vector
        const T x(t);
        T y; y = t;
        const T z(t.coeffs());
        std::vector<T, Eigen::aligned_allocator<T> > v; v.push_back(t); v.emplace_back(t);
        if (!same_bits(z.coeffs(), x.coeffs())) out.flags |= 4;
        put_e(out, x); put(out.j1, out.n1, y.coeffs()); put(out.j2, out.n2, v[1].coeffs());
      } break;
      case OP_T_ACCESSORS: { Collector c(out); if (!TAcc<T>::read(t, c)) out.status = 9; } break;   // J*t only instantiates for owning tangents
      case OP_T_RPLUS_X: case OP_T_LPLUS_X: case OP_T_PLUS_X: case OP_T_ADD_X:
        // these take `const LieGroup&`: a view operand is converted to a temporary owning object by the library
        switch (op.kb) {
          case K_OWN: tx(t, st.e[op.b], op, out); break;
          case K_MAP: tx(t, st.vm[op.b], op, out); break;
          default: tx(t, st.vc[op.b], op, out); break;
        }
        break;
      case OP_INNER: case OP_BRACKET: case OP_TPLUS: case OP_TMINUS: case OP_T_ADD_T: case OP_T_SUB_T:
      case OP_T_ISAPPROX: case OP_T_HOLD:
        tt_b(st, t, op, out); break;
      default: out.status = 9;
    }
  }

  template <class TA> static void jt_mul(const TA& t, Out& out, std::true_type) { Jac J = t.rjac(); put_e(out, J * t); }
  template <class TA> static void jt_mul(const TA&, Out& out, std::false_type) { out.status = 9; }

  // ---- static helpers ---------------------------------------------------------------
  static void stat(St& st, const OpRec& op, Out& out) {
    switch (op.op) {
      case OP_IDENTITY: put_e(out, G::Identity()); break;
      case OP_ZERO: put_e(out, T::Zero()); break;
      case OP_GENERATOR: put(out.v, out.nv, T::Generator((int)(signed char)op.c)); break;
      case OP_INNERWEIGHTS: put(out.v, out.nv, T::InnerWeights()); break;
      case OP_VEE: put_e(out, T::Vee(st.t[op.a].hat())); break;
      case OP_BRACKET_S: bracket_s(st, op, out, HasSmallAdj()); break;
      case OP_RANDOM: put_e(out, G::Random()); break;
      case OP_T_RANDOM: put_e(out, T::Random()); break;
      default: out.status = 9;
    }
  }
  static void bracket_s(St& st, const OpRec& op, Out& out, std::true_type) { put_e(out, T::Bracket(st.t[op.a], st.t[op.b])); }
  static void bracket_s(St&, const OpRec&, Out& out, std::false_type) { out.status = 9; }

  // ---- algorithms -----------------------------------------------------------------------
  template <class A> static void interp(St& st, const A& a, const A& b, const OpRec& op, Out& out) {
    const T& ta = st.t[op.c % St::NT];
    const T& tb = st.t[(op.c + 1) % St::NT];
    switch (op.op) {
      case OP_INTERP_SLERP:
        if (op.variant & V_ALT) put_e(out, manif::interpolate_slerp(a, b, S(op.s)));
        else put_e(out, manif::interpolate(a, b, S(op.s), manif::INTERP_METHOD::SLERP)); break;
      case OP_INTERP_CUBIC:
        if (op.variant & V_ALT) put_e(out, manif::interpolate(a, b, S(op.s), manif::INTERP_METHOD::CUBIC));
        else put_e(out, manif::interpolate(a, b, S(op.s), manif::INTERP_METHOD::CUBIC, ta, tb)); break;
      default:
        if (op.variant & V_ALT) put_e(out, manif::interpolate(a, b, S(op.s), manif::INTERP_METHOD::CNSMOOTH));
        else put_e(out, manif::interpolate(a, b, S(op.s), manif::INTERP_METHOD::CNSMOOTH, ta, tb)); break;
    }
  }
  // manif::average() does not compile for groups with DoF == 1 on the pinned tree
  static void avg_plain(St& st, const OpRec& op, Out& out, std::true_type) {
    if (op.variant & V_ALT) { std::vector<G, Eigen::aligned_allocator<G> > none; put_e(out, manif::average(none)); }
    else if ((op.variant & V_SUB) && !st.vec.empty()) {
      std::vector<G, Eigen::aligned_allocator<G> > sub(st.vec.begin(), st.vec.begin() + 1 + op.c % st.vec.size());
      put_e(out, manif::average(sub));
    }
    else put_e(out, manif::average(st.vec));
  }
  static void avg_plain(St&, const OpRec&, Out& out, std::false_type) { out.status = 9; }
  static void alg(St& st, const OpRec& op, Out& out) {
    switch (op.op) {
      case OP_INTERP_SLERP: case OP_INTERP_CUBIC: case OP_INTERP_SMOOTH:
        switch (op.ka) {
          case K_OWN: interp(st, st.e[op.a], st.e[op.b], op, out); break;
          case K_MAP: interp(st, st.vm[op.a], st.vm[op.b], op, out); break;
          default: interp(st, st.vc[op.a], st.vc[op.b], op, out); break;
        }
        break;
      case OP_AVG_BIINV: case OP_AVG: case OP_AVG_FL: case OP_AVG_FR: {
        if (op.op == OP_AVG) { avg_plain(st, op, out, std::integral_constant<bool, (DoF > 1)>()); break; }
        if (op.variant & V_ALT) {  // empty container: must be rejected
          std::vector<G, Eigen::aligned_allocator<G> > none;
          if (op.op == OP_AVG_BIINV) put_e(out, manif::average_biinvariant(none));
          else if (op.op == OP_AVG_FL) put_e(out, manif::average_frechet_left(none));
          else put_e(out, manif::average_frechet_right(none));
          break;
        }
        if ((op.variant & V_SUB) && !st.vec.empty()) {   // a leading part of the shared container (another container size)
          std::vector<G, Eigen::aligned_allocator<G> > sub(st.vec.begin(), st.vec.begin() + 1 + op.c % st.vec.size());
          if (op.op == OP_AVG_BIINV) put_e(out, manif::average_biinvariant(sub));
          else if (op.op == OP_AVG_FL) put_e(out, manif::average_frechet_left(sub));
          else put_e(out, manif::average_frechet_right(sub));
          break;
        }
        if (op.op == OP_AVG_BIINV) put_e(out, manif::average_biinvariant(st.vec));
        else if (op.op == OP_AVG_FL) put_e(out, manif::average_frechet_left(st.vec));
        else put_e(out, manif::average_frechet_right(st.vec));
      } break;
      case OP_DECASTELJAU: {
        std::vector<G> traj(st.vec.begin(), st.vec.end());
        const unsigned degree = 2 + (op.c & 1);
        const unsigned k = (op.variant & V_ALT) ? 0u : 1u + ((op.c >> 1) & 1);   // k = 0 must be rejected
        std::vector<G> curve = manif::decasteljau(traj, degree, k, false);
        out.nv = 0;
        Eigen::Matrix<double, Eigen::Dynamic, 1> all(curve.size() * Rep);
        for (size_t i = 0; i < curve.size(); ++i)
          for (int r = 0; r < Rep; ++r) all(i * Rep + r) = (double)curve[i].coeffs()(r);
        put(out.v, out.nv, all);
      } break;
      case OP_SMOOTH_PHI: put_scalar(out.v, out.nv, (double)manif::smoothing_phi(S(op.s), (std::size_t)op.c)); break;
      default: out.status = 9;
    }
  }

  // ---- element mutators ---------------------------------------------------------------------
  template <class A, class B> static void mut_ee(A& a, const B& b, const OpRec& op, Out& out) {
    switch (op.op) {
      case OP_M_ASSIGN: a = b; put_e(out, a); break;
      case OP_M_MULEQ: a *= b; put_e(out, a); break;
      case OP_M_ASSIGN_EIGEN: a = b.coeffs(); put_e(out, a); break;
      case OP_M_MOVE_ASSIGN: {
        const S* const before = a.data();
        if (!(op.variant & V_ALT) && op.c % 3 == 2) { Eigen::Matrix<S, Rep, 1> v = b.coeffs(); a = std::move(v); }   // rvalue coefficient vector
        else move_assign(a, b, op);
        if (a.data() != before || !same_bits(a.coeffs(), b.coeffs())) out.flags |= 4;
        put_e(out, a);
      } break;
      case OP_M_COEFFWRITE:
        for (int i = 0; i < Rep; ++i) {
          const S v = b.coeffs()(i);
          if ((op.variant & 3) == 0) a.coeffs()(i) = v;
          else if ((op.variant & 3) == 1) a.data()[i] = v;
          else a[i] = v;
        }
        put_e(out, a); break;
      case OP_M_SUBVIEW_WRITE: sub_write(a, b, op.c, out, HasAsSO3(), IsBundle()); break;
      case OP_M_SETTERS: if (Acc<G>::set_from(a, b, op.c)) put_e(out, a); else out.status = 9; break;
      default: out.status = 9;
    }
  }
  // X = std::move(Y): from an owning temporary, or (V_ALT) from a second mutable view of Y's storage.
  // (moving from a Map<const ...> does not compile on the pinned tree.)
  template <class A> static void move_assign(A& a, const G& b, const OpRec&) { G tmp(b); a = std::move(tmp); }
  template <class A> static void move_assign(A& a, const MG& b, const OpRec& op) {
    if (op.variant & V_ALT) { MG src(const_cast<S*>(b.data())); a = std::move(src); }
    else { G tmp(b); a = std::move(tmp); }
  }
  template <class A> static void move_assign(A& a, const CG& b, const OpRec&) { G tmp(b); a = std::move(tmp); }
  template <class A> static void mut_e(St& st, A& a, const OpRec& op, Out& out) {
    switch (op.op) {
      case OP_M_SETIDENTITY: a.setIdentity(); put_e(out, a); break;
      case OP_M_SETRANDOM: a.setRandom(); put_e(out, a); break;
      case OP_M_NORMALIZE: normalize_of(a, out, HasNormalize()); break;
      case OP_M_PLUSEQ:
        switch (op.kb) {
          case K_OWN: a += st.t[op.b]; break;
          case K_MAP: a += st.tm[op.b]; break;
          default: a += st.tc[op.b]; break;
        }
        put_e(out, a); break;
      case OP_M_ALIAS: {
        // expected (unaliased, on a private copy) into v; aliased result into j1
        const G x(a);
        G r;
        switch (op.c % AL__N) {
          case AL_SQUARE: r = x * x; a = a * a; break;
          case AL_INVERSE: r = x.inverse(); a = a.inverse(); break;
          case AL_BETWEEN_SELF: r = x.between(x); a = a.between(a); break;
          case AL_COMPOSE_INV: { const G y(st.e[op.b]); r = x.compose(y).compose(y.inverse()); a = a.compose(y).compose(y.inverse()); } break;
          case AL_PLUS_LOG: r = x + x.log(); a = a + a.log(); break;
          default: r = x.log().exp(); a = a.log().exp(); break;
        }
        put_e(out, r);
        put(out.j1, out.n1, a.coeffs());
      } break;
      case OP_M_ASSIGN: case OP_M_MULEQ: case OP_M_ASSIGN_EIGEN: case OP_M_MOVE_ASSIGN: case OP_M_COEFFWRITE:
      case OP_M_SUBVIEW_WRITE: case OP_M_SETTERS:
        switch (op.kb) {
          case K_OWN: mut_ee(a, st.e[op.b], op, out); break;
          case K_MAP: mut_ee(a, st.vm[op.b], op, out); break;
          default: mut_ee(a, st.vc[op.b], op, out); break;
        }
        break;
      default: out.status = 9;
    }
  }

  // ---- tangent mutators -----------------------------------------------------------------------
  // t = std::move(u) in its spellings: an owning temporary, a temporary view of u's storage, an rvalue coefficient
  // vector, temporaries returned by the sub-view accessors.  The destination keeps its own storage and ends up
  // with u's coefficients (bit2 of Out::flags otherwise).
  template <class TA, class TB> static void sub_move(TA& a, const TB& b, std::true_type, std::false_type) {
    T bc(b);
    Eigen::Map<manif::SO3Tangent<S> > av(a.asSO3());
    const long off = (long)(av.data() - a.data());
    a.coeffs() = b.coeffs();
    for (int i = 0; i < 3; ++i) a.coeffs()(off + i) += S(1);
    a.asSO3() = bc.asSO3();
  }
  template <class TA, class TB> static void sub_move(TA& a, const TB& b, std::false_type, std::true_type) {
    T bc(b);
    typename T::template MapElement<0> av(a.template element<0>());
    const long off = (long)(av.data() - a.data());
    const int n = (int)av.coeffs().size();
    a.coeffs() = b.coeffs();
    for (int i = 0; i < n; ++i) a.coeffs()(off + i) += S(1);
    a.template element<0>() = bc.template element<0>();
    enum { L = G::BundleSize - 1 };
    typename T::template MapElement<L> al(a.template element<L>());
    const long offl = (long)(al.data() - a.data());
    a.coeffs()(offl) += S(1);
    a.template element<L>() = bc.template element<L>();
  }
  template <class TA, class TB> static void sub_move(TA& a, const TB& b, std::false_type, std::false_type) {
    MT src(const_cast<S*>(b.data())); a = std::move(src);
  }
  template <class TA, class TB> static void tmove(TA& a, const TB& b, const OpRec& op, Out& out) {
    const S* const before = a.data();
    switch (op.c % 4) {
      case 0: { T tmp(b); a = std::move(tmp); } break;
      case 1: { MT src(const_cast<S*>(b.data())); a = std::move(src); } break;
      case 2: { Eigen::Matrix<S, DoF, 1> v = b.coeffs(); a = std::move(v); } break;
      default: sub_move(a, b, HasAsSO3(), IsBundle()); break;
    }
    if (a.data() != before || !same_bits(a.coeffs(), b.coeffs())) out.flags |= 4;
  }
  template <class TA, class TB> static void mut_tt(TA& a, const TB& b, const OpRec& op, Out& out) {
    switch (op.op) {
      case OP_TM_ASSIGN: a = b; break;
      case OP_TM_PLUSEQ: if (op.variant & V_ALT) a += b.coeffs(); else a += b; break;
      case OP_TM_MINUSEQ: if (op.variant & V_ALT) a -= b.coeffs(); else a -= b; break;
      case OP_TM_ASSIGN_EIGEN: a = b.coeffs(); break;
      case OP_TM_COEFFWRITE:
        for (int i = 0; i < DoF; ++i) {
          const S v = b.coeffs()(i);
          if ((op.variant & 3) == 0) a.coeffs()(i) = v;
          else if ((op.variant & 3) == 1) a.data()[i] = v;
          else a[i] = v;
        }
        break;
      case OP_TM_BLOCKSET: if (!TAcc<T>::set_from(a, b)) { out.status = 9; return; } break;
      case OP_TM_MOVE_ASSIGN: tmove(a, b, op, out); break;
      default: out.status = 9; return;
    }
    put_e(out, a);
  }
  template <class TA> static void mut_t(St& st, TA& a, const OpRec& op, Out& out) {
    switch (op.op) {
      case OP_TM_SETZERO: a.setZero(); put_e(out, a); break;
      case OP_TM_SETRANDOM: a.setRandom(); put_e(out, a); break;
      case OP_TM_MULEQ: a *= S(op.s); put_e(out, a); break;
      case OP_TM_DIVEQ: a /= S(op.s); put_e(out, a); break;
      case OP_TM_SETVEE: a.setVee(st.t[op.b].hat()); put_e(out, a); break;
      case OP_TM_LOG_INTO:
        switch (op.kb) {
          case K_OWN: a = st.e[op.b].log(); break;
          case K_MAP: a = st.vm[op.b].log(); break;
          default: a = st.vc[op.b].log(); break;
        }
        put_e(out, a); break;
      case OP_TM_STREAM: stream_into(a, st.t[op.b]); put_e(out, a); break;
      case OP_TM_ASSIGN: case OP_TM_PLUSEQ: case OP_TM_MINUSEQ: case OP_TM_ASSIGN_EIGEN: case OP_TM_COEFFWRITE:
      case OP_TM_BLOCKSET: case OP_TM_MOVE_ASSIGN:
        switch (op.kb) {
          case K_OWN: mut_tt(a, st.t[op.b], op, out); break;
          case K_MAP: mut_tt(a, st.tm[op.b], op, out); break;
          default: mut_tt(a, st.tc[op.b], op, out); break;
        }
        break;
      default: out.status = 9;
    }
  }
  // comma initialiser: t << c0, c1, ...
  template <class TA> static void stream_into(TA& a, const T& src) { stream_n(a, src, std::integral_constant<int, (DoF <= 3 ? DoF : 0)>()); }
  template <class TA> static void stream_n(TA& a, const T& s, std::integral_constant<int, 1>) { a << s.coeffs()(0); }
  template <class TA> static void stream_n(TA& a, const T& s, std::integral_constant<int, 2>) { a << s.coeffs()(0), s.coeffs()(1); }
  template <class TA> static void stream_n(TA& a, const T& s, std::integral_constant<int, 3>) { a << s.coeffs()(0), s.coeffs()(1), s.coeffs()(2); }
  template <class TA> static void stream_n(TA& a, const T& s, std::integral_constant<int, 0>) { a << s.coeffs(); }

  // ---- dispatch -------------------------------------------------------------------------------------
  static void dispatch(St& st, const OpRec& op, Out& out) {
    const OpInfo& inf = op_info(op.op);
    if (!inf.name) { out.status = 9; return; }
    switch (inf.cls) {
      case C_ELEM:
        switch (op.ka) {
          case K_OWN: elem(st, st.e[op.a], op, out); break;
          case K_MAP: if (op.variant & V_FRESH) { MG m(st.ebuf[op.a]); const MG& cm = m; elem(st, cm, op, out); } else { const MG& cm = st.vm[op.a]; elem(st, cm, op, out); } break;
          default: if (op.variant & V_FRESH) { CG m(st.ebuf[op.a]); elem(st, m, op, out); } else elem(st, st.vc[op.a], op, out); break;
        }
        break;
      case C_TAN:
        switch (op.ka) {
          case K_OWN: tan(st, st.t[op.a], op, out); break;
          case K_MAP: if (op.variant & V_FRESH) { MT m(st.tbuf[op.a]); const MT& cm = m; tan(st, cm, op, out); } else { const MT& cm = st.tm[op.a]; tan(st, cm, op, out); } break;
          default: if (op.variant & V_FRESH) { CT m(st.tbuf[op.a]); tan(st, m, op, out); } else tan(st, st.tc[op.a], op, out); break;
        }
        break;
      case C_STATIC: stat(st, op, out); break;
      case C_ALG: alg(st, op, out); break;
      case C_MUT_E:
        if (op.ka == K_OWN) mut_e(st, st.e[op.a], op, out);
        else if (op.ka == K_MAP) { if (op.variant & V_FRESH) { MG m(st.ebuf[op.a]); mut_e(st, m, op, out); } else mut_e(st, st.vm[op.a], op, out); }
        else out.status = 9;
        break;
      case C_MUT_T:
        if (op.ka == K_OWN) mut_t(st, st.t[op.a], op, out);
        else if (op.ka == K_MAP) { if (op.variant & V_FRESH) { MT m(st.tbuf[op.a]); mut_t(st, m, op, out); } else mut_t(st, st.tm[op.a], op, out); }
        else out.status = 9;
        break;
      default: out.status = 9;
    }
  }

  static void run(void* stv, const OpRec* op, Out* out) {
    St& st = *static_cast<St*>(stv);
    out->status = 0; out->flags = 0; out->nv = out->n1 = out->n2 = 0;
    try {
      dispatch(st, *op, *out);
    } catch (const manif::invalid_argument&) { out->status = 1; out->nv = out->n1 = out->n2 = 0;
    } catch (const manif::runtime_error&) { out->status = 2; out->nv = out->n1 = out->n2 = 0;
    } catch (const std::logic_error&) { out->status = 3; out->nv = out->n1 = out->n2 = 0;
    } catch (const std::exception&) { out->status = 4; out->nv = out->n1 = out->n2 = 0;
    } catch (...) { out->status = 5; out->nv = out->n1 = out->n2 = 0; }
  }

  // ---- state management -----------------------------------------------------------------------------
  static void* state_new(void** ebufs, void** tbufs) {
    St* st = new St();
    st->e.resize(St::NE); st->t.resize(St::NT); st->p.resize(St::NP);
    st->own_bufs = (ebufs == nullptr);
    for (int i = 0; i < St::NE; ++i)
      st->ebuf[i] = ebufs ? static_cast<S*>(ebufs[i]) : static_cast<S*>(Eigen::internal::aligned_malloc(sizeof(S) * Rep));
    for (int i = 0; i < St::NT; ++i)
      st->tbuf[i] = tbufs ? static_cast<S*>(tbufs[i]) : static_cast<S*>(Eigen::internal::aligned_malloc(sizeof(S) * DoF));
    st->vm.reserve(St::NE); st->vc.reserve(St::NE); st->tm.reserve(St::NT); st->tc.reserve(St::NT);
    for (int i = 0; i < St::NE; ++i) { st->vm.emplace_back(st->ebuf[i]); st->vc.emplace_back(st->ebuf[i]); }
    for (int i = 0; i < St::NT; ++i) { st->tm.emplace_back(st->tbuf[i]); st->tc.emplace_back(st->tbuf[i]); }
    // deterministic initial content: identity coefficients / zero tangents / zero points, written raw
    LayoutAcc acc; Layout<G>::fill(acc, 0, 0);
    double idc[Rep > 0 ? Rep : 1];
    for (int i = 0; i < Rep; ++i) idc[i] = 0;
    for (int k = 0; k < acc.n_unit; ++k) idc[acc.unit[k].off + (acc.unit[k].len == 4 ? 3 : 0)] = 1;
    double zt[DoF > 0 ? DoF : 1]; for (int i = 0; i < DoF; ++i) zt[i] = 0;
    double zp[Dim > 0 ? Dim : 1]; for (int i = 0; i < Dim; ++i) zp[i] = 0;
    for (int i = 0; i < St::NE; ++i) set_elem(st, i, 2, idc);
    for (int i = 0; i < St::NT; ++i) set_tan(st, i, 2, zt);
    for (int i = 0; i < St::NP; ++i) set_pt(st, i, zp);
    return st;
  }
  static void state_free(void* stv) {
    St* st = static_cast<St*>(stv);
    if (st->own_bufs) {
      for (int i = 0; i < St::NE; ++i) Eigen::internal::aligned_free(st->ebuf[i]);
      for (int i = 0; i < St::NT; ++i) Eigen::internal::aligned_free(st->tbuf[i]);
    }
    delete st;
  }
  static void set_elem(void* stv, int slot, int which, const double* c) {
    St& st = *static_cast<St*>(stv);
    if (which == 0 || which == 2) for (int i = 0; i < Rep; ++i) st.e[slot].coeffs()(i) = S(c[i]);
    if (which == 1 || which == 2) for (int i = 0; i < Rep; ++i) st.ebuf[slot][i] = S(c[i]);
  }
  static void get_elem(void* stv, int slot, int which, double* c) {
    St& st = *static_cast<St*>(stv);
    if (which == 0) for (int i = 0; i < Rep; ++i) c[i] = (double)st.e[slot].coeffs()(i);
    else for (int i = 0; i < Rep; ++i) c[i] = (double)st.ebuf[slot][i];
  }
  static void set_tan(void* stv, int slot, int which, const double* c) {
    St& st = *static_cast<St*>(stv);
    if (which == 0 || which == 2) for (int i = 0; i < DoF; ++i) st.t[slot].coeffs()(i) = S(c[i]);
    if (which == 1 || which == 2) for (int i = 0; i < DoF; ++i) st.tbuf[slot][i] = S(c[i]);
  }
  static void get_tan(void* stv, int slot, int which, double* c) {
    St& st = *static_cast<St*>(stv);
    if (which == 0) for (int i = 0; i < DoF; ++i) c[i] = (double)st.t[slot].coeffs()(i);
    else for (int i = 0; i < DoF; ++i) c[i] = (double)st.tbuf[slot][i];
  }
  static void set_pt(void* stv, int slot, const double* c) {
    St& st = *static_cast<St*>(stv);
    for (int i = 0; i < Dim; ++i) st.p[slot](i) = S(c[i]);
  }
  static void get_pt(void* stv, int slot, double* c) {
    St& st = *static_cast<St*>(stv);
    for (int i = 0; i < Dim; ++i) c[i] = (double)st.p[slot](i);
  }
  static void set_vec(void* stv, const int* slots, int n, int append) {
    St& st = *static_cast<St*>(stv);
    if (!append) st.vec.clear();
    for (int i = 0; i < n; ++i) st.vec.push_back(st.e[slots[i]]);
  }
  static const void* elem_addr(void* stv, int slot, int which) {
    St& st = *static_cast<St*>(stv);
    return which == 0 ? (const void*)st.e[slot].data() : (const void*)st.ebuf[slot];
  }
  static const void* tan_addr(void* stv, int slot, int which) {
    St& st = *static_cast<St*>(stv);
    return which == 0 ? (const void*)st.t[slot].data() : (const void*)st.tbuf[slot];
  }

  static GroupVT make_vt(const char* name) {
    GroupVT vt;
    std::memset(&vt, 0, sizeof vt);
    vt.name = name;
    vt.rep = Rep; vt.dof = DoF; vt.dim = Dim; vt.algdim = (int)T::LieAlg::RowsAtCompileTime;
    vt.is_float = std::is_same<S, float>::value ? 1 : 0;
    vt.eps = (double)manif::Constants<S>::eps;
    LayoutAcc acc;
    Layout<G>::fill(acc, 0, 0);
    vt.n_unit = acc.n_unit; vt.n_ang = acc.n_ang;
    for (int i = 0; i < acc.n_unit; ++i) vt.unit[i] = acc.unit[i];
    for (int i = 0; i < acc.n_ang; ++i) vt.ang[i] = acc.ang[i];
    // linear blocks = complement of unit blocks
    vt.n_lin = 0;
    int pos = 0;
    for (int i = 0; i <= acc.n_unit; ++i) {
      int end = (i < acc.n_unit) ? acc.unit[i].off : Rep;
      if (end > pos && vt.n_lin < 6) { vt.lin[vt.n_lin].off = pos; vt.lin[vt.n_lin].len = end - pos; ++vt.n_lin; }
      if (i < acc.n_unit) pos = acc.unit[i].off + acc.unit[i].len;
    }
    vt.NE = St::NE; vt.NT = St::NT; vt.NP = St::NP;
    vt.caps = Layout<G>::caps();
    vt.scalar_size = sizeof(S);
    vt.state_new = &state_new; vt.state_free = &state_free;
    vt.set_elem = &set_elem; vt.get_elem = &get_elem;
    vt.set_tan = &set_tan; vt.get_tan = &get_tan;
    vt.set_pt = &set_pt; vt.get_pt = &get_pt; vt.set_vec = &set_vec;
    vt.elem_addr = &elem_addr; vt.tan_addr = &tan_addr;
    vt.exec = &run;
    return vt;
  }
};

}  // namespace vsim

#define VSIM_REGISTER_GROUP(TYPE, NAME)                                        \
  namespace {                                                                  \
  struct Reg_##NAME {                                                          \
    vsim::GroupVT vt;                                                          \
    Reg_##NAME() : vt(vsim::Exec<TYPE>::make_vt(#NAME)) { vsim::register_group(&vt); } \
  } reg_##NAME;                                                                \
  }

#endif
