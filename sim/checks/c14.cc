// C14: the const API is safe under concurrent use (DESIGN 4.1).
// One simulated run = one fresh process: N real threads execute a seeded plan of
// non-mutating operations on shared objects; the uninstrumented scheduler decides
// who runs at every scheduling point (operation boundaries, the four guard points
// of each lazily initialised constant, seeded function-entry pre-emptions).
#include "checks.h"
#include "../core/vsched.h"
#include <pthread.h>
#include <unistd.h>
#include <sys/wait.h>
#include <cstring>
#include <cstdlib>
#include <sstream>
#include <algorithm>

namespace vsim {
namespace {

enum Fault : uint8_t { F_NONE = 0, F_REJECT = 1, F_STALL = 4 };
const uint8_t T_MAIN = 255;   // step executed by the main thread before the workers start (prewarm)

struct Lite { int status; int flags; uint64_t digest; };

struct Shared {
  const Plan* plan;
  Ctx* ctx;
  std::vector<Lite>* results;
};
Shared g_sh;

struct ThreadArg { int tid; };

void exec_into(const Plan& plan, Ctx& ctx, size_t i, Lite& l) {
  const Step& s = plan.steps[i];
  const GroupCtx& gc = ctx.g[s.group];
  Out out;
  gc.vt->exec(gc.st, &s.op, &out);
  l.status = out.status; l.flags = out.flags; l.digest = out.digest();
}

void* worker(void* a) {
  const int tid = static_cast<ThreadArg*>(a)->tid;
  vs_thread_begin(tid);
  const Plan& plan = *g_sh.plan;
  for (size_t i = 0; i < plan.steps.size(); ++i) {
    const Step& s = plan.steps[i];
    if (s.kind != ST_OP || s.op.thread != tid) continue;
    vs_yield(VS_R_OPB, (unsigned)i);
    if (s.op.fault == F_STALL) vs_stall(s.op.fparam, (unsigned)i);
    exec_into(plan, *g_sh.ctx, i, (*g_sh.results)[i]);
    vs_statics_check_note((long)i);
  }
  vs_thread_end();
  return nullptr;
}

// hash of every shared operand (owning objects and view buffers)
uint64_t operand_hash(Ctx& ctx) {
  Fnv f;
  for (auto& gc : ctx.g) {
    const GroupVT* vt = gc.vt;
    for (int i = 0; i < vt->NE; ++i)
      for (int w = 0; w < 2; ++w) f.bytes(vt->elem_addr(gc.st, i, w), vt->scalar_size * vt->rep);
    for (int i = 0; i < vt->NT; ++i)
      for (int w = 0; w < 2; ++w) f.bytes(vt->tan_addr(gc.st, i, w), vt->scalar_size * vt->dof);
    double p[32];
    for (int i = 0; i < vt->NP; ++i) { vt->get_pt(gc.st, i, p); f.bytes(p, sizeof(double) * vt->dim); }
  }
  return f.h;
}

void apply_sets(const Plan& plan, Ctx& ctx) {
  for (const Step& s : plan.steps) {
    const GroupCtx& gc = ctx.g[s.group];
    switch (s.kind) {
      case ST_SETE: gc.vt->set_elem(gc.st, s.slot, 2, s.vals.data()); break;
      case ST_SETT: gc.vt->set_tan(gc.st, s.slot, 2, s.vals.data()); break;
      case ST_SETP: gc.vt->set_pt(gc.st, s.slot, s.vals.data()); break;
      case ST_SETVEC: { int sl[16]; int n = 0; for (double v : s.vals) if (n < 16) sl[n++] = (int)v; gc.vt->set_vec(gc.st, sl, n, s.slot == 1); } break;
      default: break;
    }
  }
}

// ---- plan generation ----------------------------------------------------------------------------
struct Gen {
  Rng rng;
  Plan plan;
  std::vector<const GroupVT*> vts;
  explicit Gen(uint64_t seed) : rng(seed) {}

  std::vector<int> const_ops(const GroupVT* vt, bool statics_only) {
    std::vector<int> v;
    for (int op = 0; op < OP__END; ++op) {
      const OpInfo& inf = op_info(op);
      if (!inf.name || !inf.is_const || inf.draws_rand) continue;
      if (inf.cls != C_ELEM && inf.cls != C_TAN && inf.cls != C_STATIC && inf.cls != C_ALG) continue;
      if (statics_only && !inf.touches_static) continue;
      if (op == OP_ROTATION && !(vt->caps & CAP_ROTATION)) continue;
      if (op == OP_TRANSFORM && (vt->caps & CAP_BUNDLE)) continue;
      if ((op == OP_SMALLADJ || op == OP_BRACKET || op == OP_BRACKET_S) && !(vt->caps & CAP_SMALLADJ)) continue;
      if (op == OP_AVG && vt->dof == 1) continue;
      if (op == OP_DECASTELJAU && vt->is_float) continue;
      v.push_back(op);
    }
    return v;
  }

  Step random_op(int g, int thread, const std::vector<int>& ops) {
    const GroupVT* vt = vts[g];
    int op = ops[rng.below((uint32_t)ops.size())];
    const OpInfo& inf = op_info(op);
    Step s = make_op(g, op, 0, 0, -1);
    s.op.thread = (uint8_t)thread;
    const int NEu = 6, NTu = 4;
    s.op.a = (uint8_t)rng.below(inf.cls == C_TAN ? NTu : NEu);
    if (inf.cls == C_STATIC && (op == OP_VEE || op == OP_BRACKET_S)) s.op.a = (uint8_t)rng.below(NTu);
    switch (inf.arg2) {
      case A_ELEM: s.op.b = (uint8_t)rng.below(NEu); break;
      case A_TAN: s.op.b = (uint8_t)rng.below(NTu); break;
      case A_PT: s.op.b = (uint8_t)rng.below(vt->NP); break;
      default: break;
    }
    s.op.c = (uint8_t)rng.below(NTu);
    if (op == OP_GENERATOR || op == OP_T_GENERATOR_M) s.op.c = (uint8_t)rng.below(vt->dof);
    if (op == OP_SMOOTH_PHI) { s.op.c = (uint8_t)(1 + rng.below(4)); s.op.s = rng.unit(); }
    if (op == OP_INTERP_SLERP || op == OP_INTERP_CUBIC || op == OP_INTERP_SMOOTH) { double u = rng.unit(); s.op.s = u < 0.1 ? 0.0 : u < 0.2 ? 1.0 : round_scalar(vt, rng.unit()); }
    if (op == OP_ISAPPROX || op == OP_T_ISAPPROX) s.op.s = vt->eps * (rng.chance(0.5) ? 1 : 1e6);
    if (op == OP_T_SCALE) s.op.s = round_scalar(vt, rng.uniform(-2, 2));
    s.op.ka = (uint8_t)rng.below(3);
    s.op.kb = (uint8_t)rng.below(3);
    if (op == OP_BRACKET || op == OP_JT_MUL) { s.op.ka = K_OWN; s.op.kb = K_OWN; }
    if (inf.nout) s.op.mask = (uint8_t)rng.below(1u << inf.nout);
    if (inf.nout && rng.chance(0.2)) s.op.variant |= (uint8_t)(rng.below(4));   // bind outputs into blocks
    if (rng.chance(0.3)) s.op.variant |= V_FRESH;
    if (s.op.op == OP_COEFFS && rng.chance(0.5)) s.op.variant |= V_ALT;   // thread-private temporary view instead of the shared Map object
    if (rng.chance(0.15) && (op == OP_INTERP_SLERP || op == OP_INTERP_CUBIC || op == OP_INTERP_SMOOTH || op == OP_T_SCALE)) s.op.variant |= V_ALT;
    return s;
  }

  Step rejected(int g, int thread) {
    const GroupVT* vt = vts[g];
    Step s = make_op(g, OP_GENERATOR, 0, 0, -1);
    s.op.thread = (uint8_t)thread; s.op.fault = F_REJECT;
    switch (rng.below(4)) {
      case 0: s.op.op = OP_GENERATOR; s.op.c = (uint8_t)(signed char)(rng.chance(0.5) ? -1 : vt->dof); s.op.fparam = 1; break;
      case 1: s.op.op = OP_T_GENERATOR_M; s.op.c = (uint8_t)vt->dof; s.op.fparam = 1; break;
      case 2: s.op.op = OP_INTERP_SLERP; s.op.a = 0; s.op.b = 1; s.op.s = 1.5; s.op.fparam = 2; break;
      default: s.op.op = OP_SMOOTH_PHI; s.op.c = 0; s.op.s = 0.5; s.op.fparam = 3; break;
    }
    return s;
  }

  void generate(uint64_t seed, bool thorough) {
    plan.check = "C14"; plan.seed = seed;
    const int ng_all = n_groups();
    int ngr = 1 + (int)rng.below(3);
    for (int i = 0; i < ngr; ++i) {
      const GroupVT* vt = group((int)rng.below(ng_all));
      plan.groups.push_back(vt->name); vts.push_back(vt);
    }
    const int nthreads = 2 + (int)rng.below(thorough ? 7 : 5);
    plan.set("threads", nthreads);
    plan.set("policy", (long)rng.below(3));
    plan.set("pct_depth", (long)(1 + rng.below(3)));
    plan.set("guard_points", rng.chance(0.9) ? 1 : 0);
    plan.set("preempt_depth", (long)rng.below(4));
    plan.set("cv_spurious", (long)(rng.chance(0.5) ? 0 : 1 + rng.below(2)));   // spurious wake-ups a condition-variable wait may see
    // shared operands, built from raw coefficient data only
    for (int g = 0; g < ngr; ++g) {
      const GroupVT* vt = vts[g];
      for (int i = 0; i < vt->NE; ++i) {
        ElemSpec sp; sp.neg_hemisphere = rng.chance(0.3); sp.lin_lo = 1e-2; sp.lin_hi = 10;
        spice_elem_spec(vt, rng, sp);
        double c[32]; gen_elem(vt, rng, sp, c);
        plan.steps.push_back(make_set(ST_SETE, g, i, c, vt->rep));
      }
      for (int i = 0; i < vt->NT; ++i) {
        TanSpec sp; sp.angle = rng.chance(0.2) ? std::fabs(rng.logmag(1e-10, 1e-6)) : rng.uniform(0.01, 3); sp.lin_lo = 1e-2; sp.lin_hi = 5;
        double t[32]; gen_tan(vt, rng, sp, t);
        plan.steps.push_back(make_set(ST_SETT, g, i, t, vt->dof));
      }
      for (int i = 0; i < vt->NP; ++i) { double p[32]; gen_pt(vt, rng, 1e-2, 10, p); plan.steps.push_back(make_set(ST_SETP, g, i, p, vt->dim)); }
      Step v; v.kind = ST_SETVEC; v.group = (uint8_t)g; int n = 1 + rng.below(4); for (int i = 0; i < n; ++i) v.vals.push_back(i);
      plan.steps.push_back(v);
    }
    // hot list: constants that several threads reach within a few decisions of each other
    std::vector<Step> hot;
    int nhot = 2 + (int)rng.below(5);
    for (int i = 0; i < nhot; ++i) {
      int g = (int)rng.below(ngr);
      hot.push_back(random_op(g, 0, const_ops(vts[g], true)));
    }
    // prewarm: main thread touches a subset of the hot constants before the workers exist
    if (rng.chance(0.35)) {
      int k = 1 + (int)rng.below(nhot);
      for (int i = 0; i < k; ++i) { Step s = hot[rng.below(nhot)]; s.op.thread = T_MAIN; plan.steps.push_back(s); }
    }
    // per-thread programs, interleaved in the plan in round-robin order (plan order = reference order)
    std::vector<std::pair<int, int> > focus;
    {
      int nf = 1 + (int)rng.below(3);
      for (int i = 0; i < nf; ++i) {
        int g = (int)rng.below(ngr);
        std::vector<int> all = const_ops(vts[g], false);
        focus.push_back(std::make_pair(g, all[rng.below((uint32_t)all.size())]));
      }
    }
    std::vector<std::vector<Step> > prog(nthreads);
    const bool same_order = rng.chance(0.5);   // every thread walks the hot constants in the same order: maximal overlap of first-use windows
    for (int t = 0; t < nthreads; ++t) {
      std::vector<Step> hs = hot;
      if (!same_order) for (int i = (int)hs.size() - 1; i > 0; --i) std::swap(hs[i], hs[rng.below(i + 1)]);
      int take = rng.chance(0.8) ? (int)hs.size() : (int)rng.below((uint32_t)hs.size() + 1);
      for (int i = 0; i < take; ++i) { hs[i].op.thread = (uint8_t)t; prog[t].push_back(hs[i]); }
      // focus operations: every thread executes the same (group, operation) once, each with its own operands
      // and storage kinds, so that state private to ONE operation (a scratch static, a memo) is hit by several
      // threads in the same run whichever operation it hides in
      for (size_t f = 0; f < focus.size(); ++f) {
        std::vector<int> one(1, focus[f].second);
        Step fs = random_op(focus[f].first, t, one);
        prog[t].insert(prog[t].begin() + rng.below((uint32_t)prog[t].size() + 1), fs);
      }
      int extra = (int)rng.below(thorough ? 24 : 12);
      for (int i = 0; i < extra; ++i) {
        int g = (int)rng.below(ngr);
        if (rng.chance(0.06)) prog[t].push_back(rejected(g, t));
        else prog[t].push_back(random_op(g, t, const_ops(vts[g], rng.chance(0.5))));
      }
      if (rng.chance(0.25) && !prog[t].empty()) {   // stall: slow thread
        Step& s = prog[t][rng.below((uint32_t)prog[t].size())];
        if (s.op.fault == F_NONE) { s.op.fault = F_STALL; s.op.fparam = (uint16_t)(1 + rng.below(40)); }
      }
      if (rng.chance(0.2)) plan.set(("late_" + std::to_string(t)).c_str(), (long)(1 + rng.below(60)));   // late start
    }
    size_t mx = 0;
    for (auto& p : prog) mx = std::max(mx, p.size());
    for (size_t i = 0; i < mx; ++i)
      for (int t = 0; t < nthreads; ++t) if (i < prog[t].size()) plan.steps.push_back(prog[t][i]);
  }
};

struct RefData {
  std::vector<Lite> res;
  uint64_t entries[16];
  std::vector<uint64_t> static_hash;   // 0 = not initialised
  uint64_t operand_hash_after;
};

bool write_all(int fd, const void* p, size_t n) {
  const char* c = (const char*)p;
  while (n) { ssize_t k = write(fd, c, n); if (k <= 0) return false; c += k; n -= (size_t)k; }
  return true;
}
bool read_all(int fd, void* p, size_t n) {
  char* c = (char*)p;
  while (n) { ssize_t k = read(fd, c, n); if (k <= 0) return false; c += k; n -= (size_t)k; }
  return true;
}

}  // namespace

void run_c14(const RunOpts& o, Result& res) {
  const int nstat = vs_statics_init();
  Plan plan;
  if (o.replay) plan = *o.replay;
  else { Gen g(o.seed); g.generate(o.seed, o.thorough); plan = g.plan; }
  if (o.dry) { if (o.record) *o.record = plan; res.str["dry"] = "1"; return; }
  const int nthreads = (int)plan.cfg_int("threads", 2);
  if (nthreads < 1 || nthreads > 15) { res.status = "harness_error"; res.detail = "bad thread count"; return; }

  Ctx ctx;
  std::string err;
  if (!ctx.init(plan, err)) { res.status = "harness_error"; res.detail = err; return; }
  apply_sets(plan, ctx);
  const uint64_t ophash0 = operand_hash(ctx);
  const size_t n = plan.steps.size();

  // ---- sequential reference model in a forked child (pristine statics, one thread, same binary) ----
  RefData ref;
  ref.res.resize(n);
  ref.static_hash.assign((size_t)nstat, 0);
  int pfd[2];
  if (pipe(pfd) != 0) { res.status = "harness_error"; res.detail = "pipe"; return; }
  fflush(stdout); fflush(stderr);
  pid_t pid = fork();
  if (pid == 0) {
    close(pfd[0]);
    vs_count_entries(1);
    std::vector<Lite> r(n);
    for (size_t i = 0; i < n; ++i) {
      r[i].status = -1; r[i].flags = 0; r[i].digest = 0;
      if (plan.steps[i].kind != ST_OP) continue;
      int th = plan.steps[i].op.thread;
      vs_calib_thread(th == T_MAIN ? 15 : th);
      exec_into(plan, ctx, i, r[i]);
    }
    vs_calib_thread(-1);
    uint64_t ent[16];
    for (int t = 0; t < 16; ++t) ent[t] = vs_entries_of(t);
    std::vector<uint64_t> sh((size_t)nstat);
    for (int k = 0; k < nstat; ++k) sh[k] = vs_static_hash_at(k);
    uint64_t oh = operand_hash(ctx);
    bool ok = write_all(pfd[1], r.data(), sizeof(Lite) * n) && write_all(pfd[1], ent, sizeof ent) &&
              write_all(pfd[1], sh.data(), sizeof(uint64_t) * sh.size()) && write_all(pfd[1], &oh, sizeof oh);
    _exit(ok ? 0 : 3);
  }
  close(pfd[1]);
  bool got = read_all(pfd[0], ref.res.data(), sizeof(Lite) * n) && read_all(pfd[0], ref.entries, sizeof ref.entries) &&
             read_all(pfd[0], ref.static_hash.data(), sizeof(uint64_t) * ref.static_hash.size()) &&
             read_all(pfd[0], &ref.operand_hash_after, sizeof(uint64_t));
  close(pfd[0]);
  int wst = 0;
  waitpid(pid, &wst, 0);
  if (!got) {
    res.status = "harness_error";
    res.detail = "sequential reference child failed (exit status " + std::to_string(wst) + ")";
    return;
  }

  // ---- pre-emption points -----------------------------------------------------------------------------
  Rng prng(plan.seed ^ 0x1234567ull);
  std::vector<std::vector<uint64_t> > pre((size_t)nthreads);
  if (!plan.preempts.empty()) {
    for (int t = 0; t < nthreads && t < (int)plan.preempts.size(); ++t) pre[t] = plan.preempts[t];
  } else if (!o.replay) {
    const int depth = (int)plan.cfg_int("preempt_depth", 0);
    for (int t = 0; t < nthreads; ++t) {
      int d = depth ? (int)prng.below((uint32_t)depth + 1) : 0;
      for (int i = 0; i < d && ref.entries[t] > 0; ++i) pre[t].push_back(1 + (prng.next() % ref.entries[t]));
      std::sort(pre[t].begin(), pre[t].end());
    }
  }

  // ---- prewarm by the main thread -----------------------------------------------------------------------
  std::vector<Lite> results(n);
  for (size_t i = 0; i < n; ++i) { results[i].status = -1; results[i].flags = 0; results[i].digest = 0; }
  int nprewarm = 0;
  for (size_t i = 0; i < n; ++i)
    if (plan.steps[i].kind == ST_OP && plan.steps[i].op.thread == T_MAIN) { exec_into(plan, ctx, i, results[i]); ++nprewarm; }

  // ---- simulated run -----------------------------------------------------------------------------------
  long nops = 0;
  for (const Step& s : plan.steps) if (s.kind == ST_OP && s.op.thread != T_MAIN) ++nops;
  long npre = 0;
  for (auto& p : pre) npre += (long)p.size();
  const long budget = 4 * nops + 6L * vs_guards_count() + npre + 64 + 2L * nthreads;
  vs_sim_begin(plan.seed, nthreads, (int)plan.cfg_int("policy", 0), (int)plan.cfg_int("pct_depth", 1), 3 * nops + 16, budget);
  vs_set_guard_points((int)plan.cfg_int("guard_points", 1));
  vs_set_cv_spurious((int)plan.cfg_int("cv_spurious", 0));
  { const char* sl = getenv("VS_SPIN_LIMIT");   // measurement aid: VS_SPIN_LIMIT=0 switches the forced yields off
    vs_set_spin(sl ? atol(sl) : plan.cfg_int("spin_limit", 250000), (int)plan.cfg_int("spin_budget", 60)); }
  for (int t = 0; t < nthreads; ++t) {
    if (!pre[t].empty()) vs_set_preempts(t, pre[t].data(), (int)pre[t].size());
    long late = plan.cfg_int(("late_" + std::to_string(t)).c_str(), 0);
    if (late > 0) vs_set_initial_stall(t, (int)late);
  }
  if (plan.has_schedule) vs_sim_replay(plan.schedule.data(), (int)plan.schedule.size());
  if (getenv("VS_WATCHDOG_MS")) vs_set_watchdog_ms(std::atol(getenv("VS_WATCHDOG_MS")), getenv("VS_FREERUN_MS") ? std::atol(getenv("VS_FREERUN_MS")) : 3000);
  g_sh.plan = &plan; g_sh.ctx = &ctx; g_sh.results = &results;
  std::vector<pthread_t> th((size_t)nthreads);
  std::vector<ThreadArg> targ((size_t)nthreads);
  for (int t = 0; t < nthreads; ++t) {
    targ[t].tid = t;
    if (pthread_create(&th[t], nullptr, worker, &targ[t]) != 0) { res.status = "harness_error"; res.detail = "pthread_create"; return; }
  }
  const int rc = vs_run();

  char hb[32];
  snprintf(hb, sizeof hb, "%016llx", (unsigned long long)vs_event_hash()); res.str["evhash"] = hb;
  snprintf(hb, sizeof hb, "%016llx", (unsigned long long)vs_first_use_hash()); res.str["fuhash"] = hb;
  res.num["steps"] = (double)vs_steps();
  res.num["switches"] = (double)vs_switches();
  res.num["threads"] = nthreads;
  res.num["ops"] = (double)nops;
  res.num["f.guard_contention"] = (double)vs_guard_contentions();
  { long w = 0, n = 0, e = 0, to = 0; vs_cv_stats(&w, &n, &e, &to);
    if (w || n) { res.num["f.condvar_wait"] = (double)w; res.num["n.condvar_notify"] = (double)n; res.num["n.condvar_notify_without_waiter"] = (double)e; res.num["f.condvar_timeout"] = (double)to; res.num["f.condvar_spurious_wakeup"] = (double)vs_cv_spurious_fired(); res.num["f.condvar_notify_one_out_of_order"] = (double)vs_cv_nonfifo(); } }
  res.num["f.preempt"] = (double)vs_preempts_fired();
  if (vs_spin_yields()) res.num["f.spin_yield"] = (double)vs_spin_yields();
  res.num["max_entries_between_points"] = (double)vs_max_entry_gap();
  { int pr = -1; unsigned tg = 0; int r = vs_max_entry_gap_where(&pr, &tg); res.str["d.max_gap_between"] = std::to_string(pr) + "->" + std::to_string(r) + "@" + std::to_string(tg); }
  res.num["f.stall"] = (double)vs_stalls_fired();
  res.num["f.prewarm"] = nprewarm;
  res.num["p.nested_guard_depth2"] = vs_guard_max_nest() >= 2 ? 1 : 0;
  res.num["p.nested_guard_depth3"] = vs_guard_max_nest() >= 3 ? 1 : 0;
  res.num["max_guard_nest"] = vs_guard_max_nest();
  res.num["statics_initialised"] = vs_statics_initialised();
  res.num["tsan_reports"] = vs_tsan_reports();
  {
    std::string gs;
    for (size_t i = 0; i < plan.groups.size(); ++i) gs += (i ? "+" : "") + plan.groups[i];
    res.str["groups"] = gs;
  }

  auto dump_events = [&]() {
    if (o.events_path.empty()) return;
    FILE* f = fopen(o.events_path.c_str(), "w");
    if (!f) return;
    vs_dump_events(f); vs_dump_first_use(f); vs_dump_statics(f);
    fclose(f);
  };
  auto record = [&]() {
    if (!o.record) return;
    Plan p = plan;
    p.has_schedule = true; p.schedule.clear();
    for (long i = 0; i < vs_schedule_len(); ++i) p.schedule.push_back(vs_schedule_at(i));
    p.preempts = pre;
    *o.record = p;
  };

  if (rc != 0) {
    // threads are parked for good: report and leave without joining
    res.fail(rc == 1 ? "deadlock" : rc == 3 ? "stuck" : rc == 4 ? "livelock" : "progress", rc == 1 ? "deadlock" : rc == 3 ? "stuck" : rc == 4 ? "livelock" : "progress",
             rc == 1 ? "all remaining simulated threads are blocked: on initialisation guards / locks owned by blocked threads, or in condition-variable waits nobody is left to notify"
             : rc == 4 ? "a thread kept spinning: after " + std::to_string(plan.cfg_int("spin_budget", 60)) + " forced yields in a row (each after " + std::to_string(plan.cfg_int("spin_limit", 250000)) +
                         " function entries without a scheduling point, every other thread given the chance to run in between) it is still in the same wait"
             : rc == 3 ? "a thread never reached its next scheduling point, and the run did not finish even when every thread was left running freely (spin wait / livelock)"
                       : "run did not finish within " + std::to_string(budget) + " scheduler decisions", vs_steps());
    dump_events(); record();
    res.str["flavour"] = flavour_name();
    res.str["seed"] = std::to_string(plan.seed);
    if (o.record && !o.emit_path.empty()) {   // main() cannot write the plan after _exit
      o.record->check = "C14"; o.record->seed = plan.seed; o.record->set("thorough", o.thorough ? 1 : 0);
      FILE* f = fopen(o.emit_path.c_str(), "w");
      if (f) { plan_write(*o.record, f); fclose(f); }
    }
    res.print(stdout);
    fflush(stdout);
    _exit(1);
  }
  for (int t = 0; t < nthreads; ++t) pthread_join(th[t], nullptr);
  dump_events(); record();

  // ---- oracles --------------------------------------------------------------------------------------------------
  for (size_t i = 0; i < n && !res.failed(); ++i) {
    const Step& s = plan.steps[i];
    if (s.kind != ST_OP) continue;
    const OpInfo& inf = op_info(s.op.op);
    const GroupVT* vt = ctx.g[s.group].vt;
    res.add((std::string("op.") + inf.name).c_str(), 1);
    if (s.op.fault == F_REJECT) {
      res.add("f.rejected_call", 1);
      if (results[i].status != 9 && results[i].status != (int)s.op.fparam) {
        std::ostringstream m;
        m << "thread " << (int)s.op.thread << ": call that must be refused (" << inf.name << " in " << vt->name << ") returned "
          << status_name(results[i].status);
        res.fail("rejected_call", std::string("rejected_call/") + vt->name + "/" + inf.name, m.str(), (long)i);
      }
    }
    if (results[i].status != ref.res[i].status || results[i].digest != ref.res[i].digest || results[i].flags != ref.res[i].flags) {
      std::ostringstream m;
      m << "thread " << (int)s.op.thread << " step " << i << ": " << inf.name << " on " << vt->name
        << " returned a different result under concurrency than in the single-threaded reference process (status "
        << status_name(results[i].status) << " vs " << status_name(ref.res[i].status) << ", digest " << std::hex
        << results[i].digest << " vs " << ref.res[i].digest << ")";
      res.fail("value_vs_sequential", std::string("value_vs_sequential/") + vt->name + "/" + inf.name, m.str(), (long)i);
    }
    if (results[i].flags & 1)
      res.fail("output_block", std::string("output_block/") + vt->name + "/" + inf.name,
               std::string(inf.name) + " wrote outside the block bound to an optional output", (long)i);
    if (results[i].flags & 8)
      res.fail("held_result_changed", std::string("held_result_changed/") + vt->name + "/" + inf.name,
               std::string(inf.name) + ": a result bound to a const reference changed while other objects were used", (long)i);
  }
  // ---- diagnostics: informative, never a violation by themselves -----------------------------------------------
  // A function-local static that changes after its initialisation (or a guard taken twice) is what a
  // hand-rolled lazy initialiser or a static scratch buffer looks like, but it is also what a correctly
  // locked cache or a std::once_flag looks like; the deciding oracles are the race detector and the
  // comparison with the sequential reference.  These observations are attached to the run for the reader.
  {
    long mstep = -1;
    int ms = vs_first_mutation(&mstep);
    if (ms < 0) ms = vs_statics_check();
    if (ms >= 0) { res.add("d.static_mutated", 1); res.str["d.static_mutated_name"] = vs_static_name(ms); }
    char buf[512];
    if (vs_guard_violation(buf, sizeof buf) >= 0) { res.add("d.guard_anomaly", 1); res.str["d.guard_anomaly_what"] = buf; }
    for (int k = 0; k < nstat; ++k) {
      uint64_t mine = vs_static_hash_at(k);
      if (mine && ref.static_hash[k] && mine != ref.static_hash[k]) {
        res.add("d.static_value_differs", 1); res.str["d.static_value_name"] = vs_static_name(k);
        break;
      }
    }
  }
  if (!res.failed()) {
    uint64_t oh = operand_hash(ctx);
    if (oh != ophash0 || ref.operand_hash_after != ophash0)
      res.fail("operand_modified", "operand_modified", "a shared operand changed during a run of non-mutating operations", -1);
  }
  ctx.destroy();
}

}  // namespace vsim
