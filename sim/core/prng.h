// Deterministic PRNG used for every choice of a simulated run.
// No header-inline code from here may end up depending on global state.
#ifndef VSIM_PRNG_H
#define VSIM_PRNG_H
#include <cstdint>
#include <cmath>

namespace vsim {

inline uint64_t splitmix64(uint64_t& s) {
  uint64_t z = (s += 0x9E3779B97F4A7C15ull);
  z = (z ^ (z >> 30)) * 0xBF58476D1CE4E5B9ull;
  z = (z ^ (z >> 27)) * 0x94D049BB133111EBull;
  return z ^ (z >> 31);
}

// seed of run i of a batch started with VERIF_SEED = base
inline uint64_t run_seed(uint64_t base, uint64_t i) {
  uint64_t s = base * 0xD1342543DE82EF95ull + i;
  splitmix64(s);
  return splitmix64(s);
}

struct Rng {
  uint64_t s[4];
  explicit Rng(uint64_t seed = 1) { reseed(seed); }
  void reseed(uint64_t seed) {
    uint64_t x = seed;
    for (int i = 0; i < 4; ++i) s[i] = splitmix64(x);
  }
  static uint64_t rotl(uint64_t x, int k) { return (x << k) | (x >> (64 - k)); }
  uint64_t next() {  // xoshiro256**
    const uint64_t r = rotl(s[1] * 5, 7) * 9;
    const uint64_t t = s[1] << 17;
    s[2] ^= s[0]; s[3] ^= s[1]; s[1] ^= s[2]; s[0] ^= s[3];
    s[2] ^= t; s[3] = rotl(s[3], 45);
    return r;
  }
  // uniform in [0,n)
  uint32_t below(uint32_t n) { return n ? (uint32_t)((next() >> 11) % n) : 0; }
  int range(int lo, int hi) { return lo + (int)below((uint32_t)(hi - lo + 1)); }  // inclusive
  double unit() { return (double)(next() >> 11) * (1.0 / 9007199254740992.0); }   // [0,1)
  bool chance(double p) { return unit() < p; }
  double uniform(double a, double b) { return a + (b - a) * unit(); }
  double sym(double a) { return uniform(-a, a); }
  // log-uniform magnitude in [lo,hi], random sign
  double logmag(double lo, double hi) {
    double l = std::log(lo), h = std::log(hi);
    double m = std::exp(uniform(l, h));
    return chance(0.5) ? m : -m;
  }
  Rng fork(uint64_t salt) { return Rng(next() ^ (salt * 0x9E3779B97F4A7C15ull)); }
};

}  // namespace vsim
#endif
