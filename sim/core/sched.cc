// Uninstrumented simulator core.  See sched.h.
// Compiled with plain flags (no -fsanitize=*, no -finstrument-functions).
#include "vsched.h"
#include "prng.h"
#include "digest.h"

#include <atomic>
#include <cstdlib>
#include <cstring>
#include <cstdio>
#include <string>
#include <vector>
#include <algorithm>
#include <climits>

#include <unistd.h>
#include <fcntl.h>
#include <elf.h>
#include <link.h>
#include <sys/mman.h>
#include <sys/stat.h>
#include <sys/syscall.h>
#include <linux/futex.h>
#include <cxxabi.h>
#include <pthread.h>
#include <mutex>
#include <errno.h>
#include <time.h>

namespace {

using vsim::Rng;
using vsim::Fnv;

const int MAXT = 16;
enum St { S_NONE = 0, S_NEW, S_PARKED, S_RUNNING, S_BLOCKED, S_DONE };

std::atomic<int> g_state[MAXT];
std::atomic<int> g_go[MAXT];
std::atomic<int> g_sched_word;
int g_reason[MAXT];
unsigned g_tag[MAXT];
int g_stall[MAXT];
const void* g_blocked_on[MAXT];
// condition variables
std::atomic<const void*> g_cv_wait[MAXT];   // what a simulated thread waits on (null: not waiting)
long g_cv_seq[MAXT]; int g_cv_timed[MAXT]; int g_cv_result[MAXT];
int g_cv_spurious_left = 0; long g_cv_spurious = 0; long g_cv_nonfifo = 0;
// spin waits
uint64_t g_entries_resume[MAXT + 1]; uint64_t g_entries_point[MAXT + 1]; uint64_t g_max_gap = 0; int g_max_gap_reason = -1, g_max_gap_prev = -1; unsigned g_max_gap_tag = 0;
long g_spin_limit = 0; int g_spin_budget = 60; int g_spin_consec[MAXT]; long g_spin_yields = 0;
std::atomic<int> g_livelock(0);
int g_probe_left[MAXT]; int g_probe_n[MAXT]; void* g_probe_fn[MAXT][8];
long g_cv_arrivals = 0, g_cv_waits = 0, g_cv_notifies = 0, g_cv_empty_notifies = 0, g_cv_timeouts = 0;
int g_nthreads = 0;
bool g_active = false;       // scheduler owns thread interleaving
bool g_guard_points = true;

thread_local int tl_tid = -1;

// policy
int g_policy = 0;
Rng g_rng(1);
int g_prio[MAXT];
std::vector<long> g_pct_points;
int g_last = -1;
long g_step = 0, g_budget = 1000000, g_switches = 0;
std::vector<int> g_replay;
bool g_have_replay = false;

// event log
struct Ev { int tid; int reason; unsigned tag; unsigned runnable; };
std::vector<Ev> g_events;
long g_reason_count[24];

// pre-emption
uint64_t g_entries[MAXT + 1];
std::vector<uint64_t> g_pre[MAXT];
size_t g_pre_i[MAXT];
long g_preempts_fired = 0, g_stalls_fired = 0;
bool g_count_entries = false;
int g_calib_tid = -1;  // sequential calibration: attribute entries to this logical thread

inline void futex_wait(std::atomic<int>* a, int val) {
  syscall(SYS_futex, (int*)a, FUTEX_WAIT_PRIVATE, val, nullptr, nullptr, 0);
}
inline void futex_wait_ms(std::atomic<int>* a, int val, long ms) {
  struct timespec ts; ts.tv_sec = ms / 1000; ts.tv_nsec = (ms % 1000) * 1000000L;
  syscall(SYS_futex, (int*)a, FUTEX_WAIT_PRIVATE, val, &ts, nullptr, 0);
}
// Free-running fallback: a released thread that does not reach its next scheduling point within the
// watchdog time is (in code that holds the property) spinning on something a parked thread must do.
// The simulator then stops serialising and lets every thread run; if they still do not finish, the
// run is stuck for real (deadlock / livelock) and is reported as such.
std::atomic<int> g_freerun(0);
long g_watchdog_ms = 4000, g_freerun_ms = 8000;
inline void futex_wake(std::atomic<int>* a) {
  syscall(SYS_futex, (int*)a, FUTEX_WAKE_PRIVATE, INT_MAX, nullptr, nullptr, 0);
}

void park(int st, int reason, unsigned tag) {
  const int t = tl_tid;
  if (g_freerun.load(std::memory_order_acquire)) return;
  { const uint64_t gap = g_entries[t] - g_entries_point[t]; if (gap > g_max_gap) { g_max_gap = gap; g_max_gap_reason = reason; g_max_gap_tag = tag; g_max_gap_prev = g_reason[t]; } }
  if (reason != VS_R_SPIN) g_spin_consec[t] = 0;
  g_reason[t] = reason;
  g_tag[t] = tag;
  g_go[t].store(0, std::memory_order_relaxed);
  g_state[t].store(st, std::memory_order_release);
  g_sched_word.store(1, std::memory_order_release);
  futex_wake(&g_sched_word);
  while (g_go[t].load(std::memory_order_acquire) == 0) futex_wait(&g_go[t], 0);
  g_entries_resume[t] = g_entries[t]; g_entries_point[t] = g_entries[t]; g_probe_left[t] = 0;
}
bool in_freerun() { return g_freerun.load(std::memory_order_acquire) != 0; }

// ---------------------------------------------------------------------------
// ELF symbol table: function-local statics and their guards
// ---------------------------------------------------------------------------
struct StaticObj {
  std::string mangled, name;
  uintptr_t addr; size_t size;
  int guard;            // index into g_guards or -1 (constant-initialised)
  bool initialised;
  uint64_t hash;
};
struct GuardVar {
  std::string mangled, name;
  uintptr_t addr;
  int obj;              // index into g_statics or -1
  int owner;            // simulated tid, -2 = main/unregistered, -1 none
  int acquires_won, releases, aborts, blocked_arrivals;
};
std::vector<StaticObj> g_statics;
std::vector<GuardVar> g_guards;      // sorted by mangled name => ASLR independent ids
std::vector<std::pair<uintptr_t, int> > g_guard_by_addr;
struct FirstUse { int guard; int tid; int blocked; };
// fixed storage: code that runs on simulated threads must not call libc functions that the
// race detector intercepts (malloc / memmove), or the simulator itself would show up in reports
struct FirstUseLog {
  enum { CAP = 8192 };
  FirstUse v[CAP]; size_t n;
  void push_back(const FirstUse& f) { if (n < CAP) v[n++] = f; }
  size_t size() const { return n; }
  const FirstUse& operator[](size_t i) const { return v[i]; }
};
FirstUseLog g_first_use;
long g_guard_contentions = 0;
int g_guard_nest[MAXT + 1];
int g_guard_max_nest = 0;
long g_unknown_guard_acquires = 0;

std::string shorten(const std::string& mangled) {
  int status = 0;
  char* d = abi::__cxa_demangle(mangled.c_str(), nullptr, nullptr, &status);
  std::string s = (status == 0 && d) ? d : mangled;
  free(d);
  // drop template default noise to keep logs readable
  std::string out;
  out.reserve(s.size());
  for (size_t i = 0; i < s.size(); ++i) out.push_back(s[i]);
  const char* pats[] = {"manif::internal::", "manif::", "Eigen::internal::", "Eigen::"};
  for (const char* p : pats) {
    size_t pos;
    while ((pos = out.find(p)) != std::string::npos) out.erase(pos, strlen(p));
  }
  if (out.size() > 160) out = out.substr(0, 100) + "..." + out.substr(out.size() - 57);
  return out;
}

uintptr_t g_load_base = 0;
int phdr_cb(struct dl_phdr_info* info, size_t, void*) {
  g_load_base = info->dlpi_addr;  // first entry = main executable
  return 1;
}

bool interesting(const char* nm) {
  // function-local statics of library code instantiated in this binary
  return strstr(nm, "5manif") || strstr(nm, "5Eigen");
}

int guard_index(const void* g) {
  uintptr_t a = (uintptr_t)g;
  auto it = std::lower_bound(g_guard_by_addr.begin(), g_guard_by_addr.end(),
                             std::make_pair(a, INT_MIN));
  if (it != g_guard_by_addr.end() && it->first == a) return it->second;
  return -1;
}

void snapshot_static(int gi) {
  if (gi < 0) return;
  int oi = g_guards[gi].obj;
  if (oi < 0) return;
  StaticObj& o = g_statics[oi];
  o.hash = vsim::fnv_bytes((const void*)o.addr, o.size);
  o.initialised = true;
}

// rand seam
bool g_rand_seeded = false;
Rng g_rand_rng(7);
uint64_t g_rand_draws = 0;
std::vector<std::pair<uint64_t, int> > g_rand_extremes;
long g_rand_extremes_fired = 0;

// lock seam bookkeeping
long g_lock_blocks = 0, g_lock_ops = 0;
const void* g_lock_seen[256]; int g_nlock_seen = 0;

// tsan
std::atomic<int> g_tsan_reports(0);
long g_tsan_first_step = -1;

}  // namespace

extern "C" {

// ===========================================================================
// configuration
// ===========================================================================
void vs_sim_begin(uint64_t seed, int nthreads, int policy, int pct_depth,
                  long est_steps, long step_budget) {
  g_rng.reseed(seed ^ 0x5ced5ced5cedull);
  g_nthreads = nthreads;
  g_policy = policy;
  g_budget = step_budget;
  g_step = 0; g_switches = 0; g_last = -1;
  g_preempts_fired = 0; g_stalls_fired = 0; g_guard_contentions = 0; g_guard_max_nest = 0;
  g_events.clear(); g_events.reserve(4096);
  memset(g_reason_count, 0, sizeof g_reason_count);
  for (int t = 0; t < MAXT; ++t) {
    g_state[t].store(t < nthreads ? S_NEW : S_NONE);
    g_go[t].store(0);
    g_stall[t] = 0; g_blocked_on[t] = nullptr;
    g_cv_wait[t].store(nullptr); g_cv_seq[t] = 0; g_cv_timed[t] = 0; g_cv_result[t] = 0;
    g_entries[t] = 0; g_pre[t].clear(); g_pre[t].reserve(64); g_pre_i[t] = 0;
  }
  // PCT: random distinct priorities, change points in [0, est_steps)
  std::vector<int> perm(nthreads);
  for (int i = 0; i < nthreads; ++i) perm[i] = i;
  for (int i = nthreads - 1; i > 0; --i) std::swap(perm[i], perm[g_rng.below(i + 1)]);
  for (int i = 0; i < nthreads; ++i) g_prio[perm[i]] = 100 + i;
  g_pct_points.clear();
  for (int i = 0; i < pct_depth; ++i)
    g_pct_points.push_back((long)g_rng.below((uint32_t)std::max(1L, est_steps)));
  g_have_replay = false; g_replay.clear();
  g_freerun.store(0);
  g_nlock_seen = 0; g_lock_blocks = 0; g_lock_ops = 0;
  g_cv_arrivals = g_cv_waits = g_cv_notifies = g_cv_empty_notifies = g_cv_timeouts = 0;
  g_cv_spurious_left = 0; g_cv_spurious = 0; g_cv_nonfifo = 0;
  g_spin_yields = 0; g_max_gap = 0; g_livelock.store(0);
  for (int t = 0; t < MAXT; ++t) { g_spin_consec[t] = 0; g_entries_resume[t] = 0; g_entries_point[t] = 0; g_probe_left[t] = 0; g_probe_n[t] = 0; }
  g_active = true;
}

void vs_sim_replay(const int* tids, int n) {
  g_replay.assign(tids, tids + n);
  g_have_replay = true;
}

void vs_set_preempts(int tid, const uint64_t* counts, int n) {
  g_pre[tid].assign(counts, counts + n);
  std::sort(g_pre[tid].begin(), g_pre[tid].end());
  g_pre_i[tid] = 0;
}

void vs_set_initial_stall(int tid, int k) { g_stall[tid] = k; if (k > 0) ++g_stalls_fired; }
void vs_set_guard_points(int on) { g_guard_points = on != 0; }
void vs_count_entries(int on) { g_count_entries = on != 0; }
void vs_calib_thread(int tid) { g_calib_tid = tid; }
uint64_t vs_entries_of(int tid) { return g_entries[tid]; }

// ===========================================================================
// worker side
// ===========================================================================
void vs_thread_begin(int tid) {
  tl_tid = tid;
  park(S_PARKED, VS_R_START, 0);
}

void vs_thread_end(void) {
  const int t = tl_tid;
  g_reason[t] = VS_R_EXIT;
  tl_tid = -1;
  g_state[t].store(S_DONE, std::memory_order_release);
  g_sched_word.store(1, std::memory_order_release);
  futex_wake(&g_sched_word);
}

void vs_yield(int reason, unsigned tag) {
  if (tl_tid < 0 || !g_active) return;
  park(S_PARKED, reason, tag);
}

void vs_stall(int k, unsigned tag) {
  if (tl_tid < 0 || !g_active) return;
  g_stall[tl_tid] = k;
  ++g_stalls_fired;
  park(S_PARKED, VS_R_STALL, tag);
}

int vs_tid_self(void) { return tl_tid; }

// ===========================================================================
// scheduler loop (main thread)
// ===========================================================================
static long wall_ms() { struct timespec ts; clock_gettime(CLOCK_MONOTONIC, &ts); return ts.tv_sec * 1000L + ts.tv_nsec / 1000000L; }
static int g_used_freerun = 0;
int vs_used_freerun(void) { return g_used_freerun; }
void vs_set_watchdog_ms(long stuck_ms, long freerun_ms) { g_watchdog_ms = stuck_ms; g_freerun_ms = freerun_ms; }
int vs_run(void) {
  int rc = 0;
  bool stuck = false;
  long waited_ms = 0;
  g_used_freerun = 0;
  for (;;) {
    // wait for quiescence: nobody NEW or RUNNING
    for (;;) {
      g_sched_word.store(0, std::memory_order_seq_cst);
      bool busy = false;
      for (int t = 0; t < g_nthreads; ++t) {
        int s = g_state[t].load(std::memory_order_acquire);
        if (s == S_NEW || s == S_RUNNING) busy = true;
      }
      if (!busy) break;
      const long t_before = wall_ms();
      futex_wait_ms(&g_sched_word, 0, 500);
      if (g_sched_word.load() == 0 && wall_ms() - t_before >= 450) {
        waited_ms += wall_ms() - t_before;
        if (waited_ms >= g_watchdog_ms) { stuck = true; break; }
      } else waited_ms = 0;
    }
    // a thread keeps coming back to the same spin loop after every forced yield: same treatment as a thread that never
    // reaches a scheduling point (a fixed-priority policy may be starving the thread it waits for)
    if (g_livelock.load()) stuck = true;
    if (stuck) {
      // stop serialising: everybody runs
      g_freerun.store(1, std::memory_order_release);
      for (int t = 0; t < g_nthreads; ++t) { g_go[t].store(1, std::memory_order_release); futex_wake(&g_go[t]); }
      const long t0 = wall_ms();
      bool all_done = false;
      while (wall_ms() - t0 < g_freerun_ms) {
        all_done = true;
        for (int t = 0; t < g_nthreads; ++t) if (g_state[t].load(std::memory_order_acquire) != S_DONE) all_done = false;
        if (all_done) break;
        g_sched_word.store(0); futex_wait_ms(&g_sched_word, 0, 50);
      }
      g_used_freerun = 1;
      rc = all_done ? 0 : 3;
      break;
    }
    // collect
    int runnable[MAXT], nr = 0, ndone = 0, nblocked = 0, nstalled = 0;
    for (;;) {
      nr = ndone = nblocked = nstalled = 0;
      for (int t = 0; t < g_nthreads; ++t) {
        int s = g_state[t].load(std::memory_order_relaxed);
        if (s == S_DONE) ++ndone;
        else if (s == S_BLOCKED) {
          // a condition-variable wait may return without a notification while the run's budget of spurious wake-ups lasts
          if (g_cv_spurious_left > 0 && g_cv_wait[t].load() != nullptr) runnable[nr++] = t; else ++nblocked;
        }
        else if (s == S_PARKED) { if (g_stall[t] > 0) ++nstalled; else runnable[nr++] = t; }
      }
      if (nr > 0 || nstalled == 0) break;
      // everybody stalled: simulated time jumps forward
      int mn = INT_MAX;
      for (int t = 0; t < g_nthreads; ++t)
        if (g_state[t].load() == S_PARKED && g_stall[t] > 0) mn = std::min(mn, g_stall[t]);
      for (int t = 0; t < g_nthreads; ++t)
        if (g_state[t].load() == S_PARKED && g_stall[t] > 0) g_stall[t] -= mn;
    }
    if (ndone == g_nthreads) break;
    if (nr == 0) {
      // nothing can run: the simulated clock jumps to the earliest deadline of a timed wait, which expires
      int tw = -1;
      for (int t = 0; t < g_nthreads; ++t)
        if (g_state[t].load() == S_BLOCKED && g_cv_wait[t].load() != nullptr && g_cv_timed[t] && (tw < 0 || g_cv_seq[t] < g_cv_seq[tw])) tw = t;
      if (tw >= 0) {
        g_cv_result[tw] = ETIMEDOUT; g_cv_wait[tw].store(nullptr); g_blocked_on[tw] = nullptr;
        g_state[tw].store(S_PARKED); ++g_cv_timeouts;
        continue;
      }
      rc = 1; break;                           // all remaining threads BLOCKED: deadlock
    }
    if (g_step >= g_budget) { rc = 2; break; } // no progress within the budget

    int pick = -1;
    if (g_have_replay) {
      if ((size_t)g_step < g_replay.size()) {
        int want = g_replay[g_step];
        for (int i = 0; i < nr; ++i) if (runnable[i] == want) pick = want;
        if (pick < 0) pick = runnable[(want < 0 ? 0 : want) % nr];
      } else {
        pick = runnable[0];
        for (int i = 0; i < nr; ++i) if (runnable[i] == g_last) pick = g_last;
      }
    } else if (g_policy == VS_P_PCT) {
      for (size_t i = 0; i < g_pct_points.size(); ++i)
        if (g_pct_points[i] == g_step && g_last >= 0) g_prio[g_last] = (int)i;  // lower than all initial
      int best = -1;
      for (int i = 0; i < nr; ++i) if (best < 0 || g_prio[runnable[i]] > g_prio[best]) best = runnable[i];
      pick = best;
    } else if (g_policy == VS_P_STICKY) {
      bool keep = false;
      for (int i = 0; i < nr; ++i) if (runnable[i] == g_last) keep = true;
      if (keep && g_rng.chance(0.8)) pick = g_last;
      else pick = runnable[g_rng.below(nr)];
    } else {
      pick = runnable[g_rng.below(nr)];
    }

    unsigned mask = 0;
    for (int i = 0; i < nr; ++i) mask |= 1u << runnable[i];
    Ev e; e.tid = pick; e.reason = g_reason[pick]; e.tag = g_tag[pick]; e.runnable = mask;
    g_events.push_back(e);
    if (e.reason >= 0 && e.reason < 24) ++g_reason_count[e.reason];
    if (pick != g_last) ++g_switches;
    g_last = pick;
    ++g_step;
    for (int t = 0; t < g_nthreads; ++t) if (g_stall[t] > 0) --g_stall[t];

    if (g_state[pick].load() == S_BLOCKED) {   // spurious wake-up
      g_cv_result[pick] = 0; g_cv_wait[pick].store(nullptr); g_blocked_on[pick] = nullptr;
      --g_cv_spurious_left; ++g_cv_spurious;
    }
    g_state[pick].store(S_RUNNING, std::memory_order_release);
    g_go[pick].store(1, std::memory_order_release);
    futex_wake(&g_go[pick]);
  }
  g_active = false;
  return rc;
}

long vs_steps(void) { return g_step; }
long vs_switches(void) { return g_switches; }

uint64_t vs_event_hash(void) {
  Fnv f;
  for (size_t i = 0; i < g_events.size(); ++i) {
    f.i32(g_events[i].tid); f.i32(g_events[i].reason);
    f.i32((int)g_events[i].tag); f.i32((int)g_events[i].runnable);
  }
  return f.h;
}

static const char* reason_name(int r) {
  static const char* n[] = {"start", "op", "guard-pre", "guard-won", "guard-prerel", "guard-postrel",
                            "guard-blocked", "preempt", "stall", "exit", "neighbour", "guard-abort", "lock", "lock-blocked", "unlock", "condvar", "spin-yield"};
  return (r >= 0 && r < 17) ? n[r] : "?";
}

void vs_dump_events(FILE* f) {
  for (size_t i = 0; i < g_events.size(); ++i) {
    const Ev& e = g_events[i];
    fprintf(f, "EV %zu t%d %s ", i, e.tid, reason_name(e.reason));
    if (e.reason >= VS_R_G_PRE && e.reason <= VS_R_G_BLOCKED && e.tag < g_guards.size())
      fprintf(f, "[%s]", g_guards[e.tag].name.c_str());
    else
      fprintf(f, "%u", e.tag);
    fprintf(f, " runnable=%x\n", e.runnable);
  }
}

void vs_dump_schedule(FILE* f) {
  for (size_t i = 0; i < g_events.size(); ++i) fprintf(f, "%s%d", i ? " " : "", g_events[i].tid);
}

long vs_schedule_len(void) { return (long)g_events.size(); }
int vs_schedule_at(long i) { return g_events[(size_t)i].tid; }

long vs_fault_count(int reason) { return (reason >= 0 && reason < 24) ? g_reason_count[reason] : 0; }
long vs_preempts_fired(void) { return g_preempts_fired; }
long vs_stalls_fired(void) { return g_stalls_fired; }
long vs_guard_contentions(void) { return g_guard_contentions; }
int vs_guard_max_nest(void) { return g_guard_max_nest; }

uint64_t vs_first_use_hash(void) {
  Fnv f;
  for (size_t i = 0; i < g_first_use.size(); ++i) {
    f.i32(g_first_use[i].guard); f.i32(g_first_use[i].tid);
    f.i32(g_guards[g_first_use[i].guard].blocked_arrivals);
  }
  return f.h;
}

void vs_dump_first_use(FILE* f) {
  for (size_t i = 0; i < g_first_use.size(); ++i)
    fprintf(f, "FU %zu t%d blocked=%d %s\n", i, g_first_use[i].tid,
            g_guards[g_first_use[i].guard].blocked_arrivals,
            g_guards[g_first_use[i].guard].name.c_str());
}

// ===========================================================================
// function-entry seam (-finstrument-functions in instrumented TUs)
// ===========================================================================
__attribute__((no_instrument_function)) void __cyg_profile_func_enter(void* fn, void*) {
  const int t = tl_tid;
  if (t < 0) {
    if (g_count_entries && g_calib_tid >= 0) ++g_entries[g_calib_tid];
    return;
  }
  const uint64_t c = ++g_entries[t];
  if (!g_active) return;
  // spin waits: after `limit` entries without a scheduling point the next 4096 entries are watched; a thread that
  // cycles through at most 8 distinct functions is taken to be spinning and is parked (forced yield, stalled for two
  // decisions); anything else is an ordinary long operation and is left alone.  All of it is counted in function
  // entries, so it is a pure function of the schedule.
  if (g_spin_limit > 0) {
    if (g_probe_left[t] > 0) {
      int& n = g_probe_n[t];
      bool seen = false;
      for (int i = 0; i < n && i < 8; ++i) if (g_probe_fn[t][i] == fn) { seen = true; break; }
      if (!seen) { if (n < 8) g_probe_fn[t][n] = fn; if (n < 9) ++n; }
      if (--g_probe_left[t] == 0) {
        if (n <= 8 && !in_freerun()) {
          ++g_spin_yields;
          if (++g_spin_consec[t] > g_spin_budget) g_livelock.store(t + 1);
          g_stall[t] = 2;   // somebody else runs first
          park(S_PARKED, VS_R_SPIN, (unsigned)g_spin_consec[t]);
          return;
        }
        g_entries_resume[t] = c; g_spin_consec[t] = 0;
      }
    } else if (c - g_entries_resume[t] > (uint64_t)g_spin_limit) {
      g_probe_left[t] = 4096; g_probe_n[t] = 0;
    }
  }
  std::vector<uint64_t>& p = g_pre[t];
  size_t& i = g_pre_i[t];
  while (i < p.size() && p[i] < c) ++i;
  if (i < p.size() && p[i] == c) {
    ++i; ++g_preempts_fired;
    park(S_PARKED, VS_R_PREEMPT, (unsigned)c);
  }
}
__attribute__((no_instrument_function)) void __cyg_profile_func_exit(void*, void*) {}

// ===========================================================================
// guard seam (-Wl,--wrap=__cxa_guard_acquire,...)
// ===========================================================================
int __real___cxa_guard_acquire(void*);
void __real___cxa_guard_release(void*);
void __real___cxa_guard_abort(void*);

int __wrap___cxa_guard_acquire(void* g) {
  const int gi = guard_index(g);
  const int t = tl_tid;
  if (gi < 0) { ++g_unknown_guard_acquires; return __real___cxa_guard_acquire(g); }
  GuardVar& gv = g_guards[gi];
  if (in_freerun()) return __real___cxa_guard_acquire(g);
  if (t < 0 || !g_active) {
    int r = __real___cxa_guard_acquire(g);
    if (r) { gv.owner = -2; ++gv.acquires_won; FirstUse fu = {gi, -1, 0}; g_first_use.push_back(fu); }
    return r;
  }
  if (g_guard_points) park(S_PARKED, VS_R_G_PRE, (unsigned)gi);
  for (;;) {
    if (gv.owner >= 0 && gv.owner != t) {
      ++gv.blocked_arrivals; ++g_guard_contentions;
      g_blocked_on[t] = g;
      park(S_BLOCKED, VS_R_G_BLOCKED, (unsigned)gi);
      continue;
    }
    int r = __real___cxa_guard_acquire(g);   // never waits: no other simulated thread owns it
    if (r) {
      gv.owner = t; ++gv.acquires_won;
      FirstUse fu = {gi, t, 0}; g_first_use.push_back(fu);
      int n = ++g_guard_nest[t];
      if (n > g_guard_max_nest) g_guard_max_nest = n;
      if (g_guard_points) park(S_PARKED, VS_R_G_WON, (unsigned)gi);
    }
    return r;
  }
}

static void unblock_waiters(const void* g) {
  for (int u = 0; u < g_nthreads; ++u)
    if (g_state[u].load() == S_BLOCKED && g_blocked_on[u] == g) {
      g_blocked_on[u] = nullptr;
      g_state[u].store(S_PARKED);
    }
}

void __wrap___cxa_guard_release(void* g) {
  const int gi = guard_index(g);
  const int t = tl_tid;
  if (gi < 0 || in_freerun()) { __real___cxa_guard_release(g); return; }
  GuardVar& gv = g_guards[gi];
  const bool sim = (t >= 0 && g_active);
  if (sim && g_guard_points) park(S_PARKED, VS_R_G_PREREL, (unsigned)gi);
  __real___cxa_guard_release(g);
  ++gv.releases;
  gv.owner = -1;
  snapshot_static(gi);
  if (sim) {
    --g_guard_nest[t];
    unblock_waiters(g);
    if (g_guard_points) park(S_PARKED, VS_R_G_POSTREL, (unsigned)gi);
  }
}

void __wrap___cxa_guard_abort(void* g) {
  const int gi = guard_index(g);
  const int t = tl_tid;
  __real___cxa_guard_abort(g);
  if (gi < 0 || in_freerun()) return;
  GuardVar& gv = g_guards[gi];
  ++gv.aborts;
  gv.owner = -1;
  if (t >= 0 && g_active) {
    --g_guard_nest[t];
    unblock_waiters(g);
    if (g_guard_points) park(S_PARKED, VS_R_G_ABORT, (unsigned)gi);
  }
}

// ===========================================================================
// lock seam (-Wl,--wrap=pthread_mutex_lock,...): a simulated thread never blocks inside libpthread,
// it is parked by the simulator and becomes runnable again when the owner unlocks.  Without this a
// (correct) mutex-protected cache added to the library would hang the serialised schedule as soon as
// the owner is pre-empted inside its critical section.
// ===========================================================================
int __real_pthread_mutex_lock(pthread_mutex_t*);
int __real_pthread_mutex_trylock(pthread_mutex_t*);
int __real_pthread_mutex_unlock(pthread_mutex_t*);
int __real_pthread_once(pthread_once_t*, void (*)(void));
// ASLR-independent name of a lock: its first-seen ordinal within the run
static unsigned lock_ordinal(const void* m) {
  for (int i = 0; i < g_nlock_seen; ++i) if (g_lock_seen[i] == m) return (unsigned)i;
  if (g_nlock_seen < 256) { g_lock_seen[g_nlock_seen] = m; return (unsigned)g_nlock_seen++; }
  return 255;
}
long vs_lock_blocks(void) { return g_lock_blocks; }
long vs_lock_ops(void) { return g_lock_ops; }

int __wrap_pthread_mutex_lock(pthread_mutex_t* m) {
  const int t = tl_tid;
  if (t < 0 || !g_active || in_freerun()) return __real_pthread_mutex_lock(m);
  ++g_lock_ops;
  if (g_guard_points) park(S_PARKED, VS_R_LOCK, lock_ordinal(m));
  for (;;) {
    if (in_freerun()) return __real_pthread_mutex_lock(m);
    int r = __real_pthread_mutex_trylock(m);
    if (r != EBUSY) return r;
    ++g_lock_blocks;
    g_blocked_on[t] = m;
    park(S_BLOCKED, VS_R_LOCK_BLOCKED, lock_ordinal(m));
  }
}
int __wrap_pthread_mutex_trylock(pthread_mutex_t* m) { return __real_pthread_mutex_trylock(m); }
int __wrap_pthread_mutex_unlock(pthread_mutex_t* m) {
  const int t = tl_tid;
  int r = __real_pthread_mutex_unlock(m);
  if (t < 0 || !g_active || in_freerun()) return r;
  unblock_waiters(m);
  if (g_guard_points) park(S_PARKED, VS_R_UNLOCK, lock_ordinal(m));
  return r;
}
static pthread_once_t* g_once_inflight[MAXT];
int __wrap_pthread_once(pthread_once_t* o, void (*f)(void)) {
  const int t = tl_tid;
  if (t < 0 || !g_active || in_freerun()) return __real_pthread_once(o, f);
  for (;;) {
    if (in_freerun()) return __real_pthread_once(o, f);
    int owner = -1;
    for (int u = 0; u < g_nthreads; ++u) if (u != t && g_once_inflight[u] == o) owner = u;
    if (owner < 0) break;
    ++g_lock_blocks;
    g_blocked_on[t] = o;
    park(S_BLOCKED, VS_R_LOCK_BLOCKED, 0);
  }
  g_once_inflight[t] = o;
  int r = __real_pthread_once(o, f);   // runs f at most once; nobody else is inside
  g_once_inflight[t] = nullptr;
  unblock_waiters(o);
  return r;
}

// ===========================================================================
// condition-variable seam (-Wl,--wrap=pthread_cond_*, and the three out-of-line members of
// std::condition_variable that live in libstdc++.so): wait releases the mutex and blocks in the simulator in
// one step, a notify makes the longest waiter (all waiters) runnable, the waiter then re-acquires the mutex
// through the lock seam.  A wait nobody will ever notify therefore ends the run as a deadlock instead of
// hanging inside libpthread; a timed wait expires when nothing else can run (simulated clock jump).
// ===========================================================================
int __real_pthread_cond_wait(pthread_cond_t*, pthread_mutex_t*);
int __real_pthread_cond_timedwait(pthread_cond_t*, pthread_mutex_t*, const struct timespec*);
int __real_pthread_cond_clockwait(pthread_cond_t*, pthread_mutex_t*, clockid_t, const struct timespec*);
int __real_pthread_cond_signal(pthread_cond_t*);
int __real_pthread_cond_broadcast(pthread_cond_t*);
void vs_cv_stats(long* w, long* n, long* e, long* to) { if (w) *w = g_cv_waits; if (n) *n = g_cv_notifies; if (e) *e = g_cv_empty_notifies; if (to) *to = g_cv_timeouts; }

void vs_set_cv_spurious(int k) { g_cv_spurious_left = k; }
void vs_set_spin(long limit, int budget) { g_spin_limit = limit; g_spin_budget = budget; }
long vs_spin_yields(void) { return g_spin_yields; }
unsigned long long vs_max_entry_gap(void) { return g_max_gap; }
int vs_max_entry_gap_where(int* prev, unsigned* tag) { if (prev) *prev = g_max_gap_prev; if (tag) *tag = g_max_gap_tag; return g_max_gap_reason; }
long vs_cv_spurious_fired(void) { return g_cv_spurious; }
long vs_cv_nonfifo(void) { return g_cv_nonfifo; }

static int cv_wait_sim(const void* c, pthread_mutex_t* m, int timed) {
  const int t = tl_tid;
  ++g_cv_waits;
  g_cv_seq[t] = ++g_cv_arrivals; g_cv_timed[t] = timed; g_cv_result[t] = 0;
  g_cv_wait[t].store(c);
  // release the mutex and start waiting in one step (no scheduling point in between)
  __real_pthread_mutex_unlock(m);
  unblock_waiters(m);
  while (g_cv_wait[t].load() == c) {
    if (in_freerun()) { struct timespec ts = {0, 200000}; nanosleep(&ts, nullptr); continue; }
    g_blocked_on[t] = c;
    park(S_BLOCKED, VS_R_CV, lock_ordinal(c));
  }
  const int res = g_cv_result[t];
  __wrap_pthread_mutex_lock(m);
  return res;
}
// wakes simulated waiters; returns how many
static int cv_notify_sim(const void* c, int all) {
  int woken = 0;
  for (;;) {
    int best = -1, cand[MAXT], nc = 0;
    for (int u = 0; u < g_nthreads; ++u)
      if (g_cv_wait[u].load() == c) { cand[nc++] = u; if (best < 0 || g_cv_seq[u] < g_cv_seq[best]) best = u; }
    if (best < 0) break;
    // POSIX lets notify_one wake any waiter: with two or more simulated waiters the choice is a seeded
    // scheduling decision (the draw happens only then, so runs without contended condition variables keep
    // their schedule stream); the running thread is the only one executing, so g_rng is not shared
    if (!all && nc >= 2 && tl_tid >= 0 && g_active && !in_freerun()) {
      const int pick = cand[g_rng.below((uint32_t)nc)];
      if (pick != best) ++g_cv_nonfifo;
      best = pick;
    }
    g_cv_result[best] = 0;
    g_cv_wait[best].store(nullptr);
    if (g_state[best].load() == S_BLOCKED && g_blocked_on[best] == c) { g_blocked_on[best] = nullptr; g_state[best].store(S_PARKED); }
    ++woken;
    if (!all) break;
  }
  return woken;
}
static void cv_notify(const void* c, int all) {
  const int t = tl_tid;
  const int woken = cv_notify_sim(c, all);
  if (t < 0 || !g_active || in_freerun()) return;
  ++g_cv_notifies;
  if (!woken) ++g_cv_empty_notifies;
  if (g_guard_points) park(S_PARKED, VS_R_CV, lock_ordinal(c));
}
static bool cv_simulated() { return tl_tid >= 0 && g_active && !in_freerun(); }

int __wrap_pthread_cond_wait(pthread_cond_t* c, pthread_mutex_t* m) {
  if (!cv_simulated()) return __real_pthread_cond_wait(c, m);
  return cv_wait_sim(c, m, 0);
}
int __wrap_pthread_cond_timedwait(pthread_cond_t* c, pthread_mutex_t* m, const struct timespec* ts) {
  if (!cv_simulated()) return __real_pthread_cond_timedwait(c, m, ts);
  return cv_wait_sim(c, m, 1);
}
int __wrap_pthread_cond_clockwait(pthread_cond_t* c, pthread_mutex_t* m, clockid_t clk, const struct timespec* ts) {
  if (!cv_simulated()) return __real_pthread_cond_clockwait(c, m, clk, ts);
  return cv_wait_sim(c, m, 1);
}
int __wrap_pthread_cond_signal(pthread_cond_t* c) { cv_notify(c, 0); return __real_pthread_cond_signal(c); }
int __wrap_pthread_cond_broadcast(pthread_cond_t* c) { cv_notify(c, 1); return __real_pthread_cond_broadcast(c); }

// std::condition_variable::wait(std::unique_lock<std::mutex>&), notify_one(), notify_all()
void __real__ZNSt18condition_variable4waitERSt11unique_lockISt5mutexE(void*, std::unique_lock<std::mutex>&);
void __real__ZNSt18condition_variable10notify_oneEv(void*);
void __real__ZNSt18condition_variable10notify_allEv(void*);
void __wrap__ZNSt18condition_variable4waitERSt11unique_lockISt5mutexE(void* cv, std::unique_lock<std::mutex>& lk) {
  if (!cv_simulated()) { __real__ZNSt18condition_variable4waitERSt11unique_lockISt5mutexE(cv, lk); return; }
  cv_wait_sim(cv, lk.mutex()->native_handle(), 0);
}
void __wrap__ZNSt18condition_variable10notify_oneEv(void* cv) { cv_notify(cv, 0); __real__ZNSt18condition_variable10notify_oneEv(cv); }
void __wrap__ZNSt18condition_variable10notify_allEv(void* cv) { cv_notify(cv, 1); __real__ZNSt18condition_variable10notify_allEv(cv); }

// ===========================================================================
// static-region watch
// ===========================================================================
int vs_statics_init(void) {
  if (!g_statics.empty() || !g_guards.empty()) return (int)g_statics.size();   // idempotent
  dl_iterate_phdr(phdr_cb, nullptr);
  int fd = open("/proc/self/exe", O_RDONLY);
  if (fd < 0) return -1;
  struct stat sb;
  if (fstat(fd, &sb) != 0) { close(fd); return -1; }
  void* m = mmap(nullptr, sb.st_size, PROT_READ, MAP_PRIVATE, fd, 0);
  close(fd);
  if (m == MAP_FAILED) return -1;
  const unsigned char* base = (const unsigned char*)m;
  const Elf64_Ehdr* eh = (const Elf64_Ehdr*)base;
  const Elf64_Shdr* sh = (const Elf64_Shdr*)(base + eh->e_shoff);
  std::vector<std::pair<std::string, std::pair<uintptr_t, size_t> > > objs, guards;
  for (int i = 0; i < eh->e_shnum; ++i) {
    if (sh[i].sh_type != SHT_SYMTAB) continue;
    const Elf64_Sym* sy = (const Elf64_Sym*)(base + sh[i].sh_offset);
    size_t n = sh[i].sh_size / sizeof(Elf64_Sym);
    const char* str = (const char*)(base + sh[sh[i].sh_link].sh_offset);
    for (size_t k = 0; k < n; ++k) {
      if (ELF64_ST_TYPE(sy[k].st_info) != STT_OBJECT || sy[k].st_shndx == SHN_UNDEF) continue;
      const char* nm = str + sy[k].st_name;
      if (!interesting(nm)) continue;
      uintptr_t a = g_load_base + sy[k].st_value;
      if (strncmp(nm, "_ZGVZ", 5) == 0) guards.push_back({nm, {a, (size_t)sy[k].st_size}});
      else if (strncmp(nm, "_ZZ", 3) == 0) objs.push_back({nm, {a, (size_t)sy[k].st_size}});
    }
  }
  munmap(m, sb.st_size);
  std::sort(objs.begin(), objs.end());
  std::sort(guards.begin(), guards.end());
  objs.erase(std::unique(objs.begin(), objs.end()), objs.end());
  guards.erase(std::unique(guards.begin(), guards.end()), guards.end());
  g_statics.clear(); g_guards.clear(); g_guard_by_addr.clear();
  for (size_t i = 0; i < objs.size(); ++i) {
    StaticObj o; o.mangled = objs[i].first; o.name = shorten(o.mangled);
    o.addr = objs[i].second.first; o.size = objs[i].second.second;
    o.guard = -1; o.initialised = false; o.hash = 0;
    g_statics.push_back(o);
  }
  for (size_t i = 0; i < guards.size(); ++i) {
    GuardVar gv; gv.mangled = guards[i].first;
    gv.addr = guards[i].second.first; gv.obj = -1; gv.owner = -1;
    gv.acquires_won = gv.releases = gv.aborts = gv.blocked_arrivals = 0;
    std::string objname = "_Z" + gv.mangled.substr(4);   // _ZGVZ... -> _ZZ...
    for (size_t k = 0; k < g_statics.size(); ++k)
      if (g_statics[k].mangled == objname) { gv.obj = (int)k; g_statics[k].guard = (int)i; }
    gv.name = gv.obj >= 0 ? g_statics[gv.obj].name : shorten(gv.mangled);
    g_guards.push_back(gv);
    g_guard_by_addr.push_back({gv.addr, (int)i});
  }
  std::sort(g_guard_by_addr.begin(), g_guard_by_addr.end());
  // constant-initialised statics are watched from the start
  for (size_t k = 0; k < g_statics.size(); ++k)
    if (g_statics[k].guard < 0) {
      g_statics[k].hash = vsim::fnv_bytes((const void*)g_statics[k].addr, g_statics[k].size);
      g_statics[k].initialised = true;
    }
  return (int)g_statics.size();
}

int vs_statics_count(void) { return (int)g_statics.size(); }
int vs_guards_count(void) { return (int)g_guards.size(); }
const char* vs_static_name(int i) { return (i >= 0 && (size_t)i < g_statics.size()) ? g_statics[i].name.c_str() : "?"; }

int vs_statics_check(void) {
  for (size_t k = 0; k < g_statics.size(); ++k) {
    StaticObj& o = g_statics[k];
    if (!o.initialised) continue;
    if (o.guard >= 0 && g_guards[o.guard].owner != -1) continue;  // re-initialisation in flight is accounted elsewhere
    if (vsim::fnv_bytes((const void*)o.addr, o.size) != o.hash) return (int)k;
  }
  return -1;
}

static int g_mut_static = -1; static long g_mut_step = -1;
void vs_statics_check_note(long step) {
  int m = vs_statics_check();
  if (m >= 0 && g_mut_static < 0) { g_mut_static = m; g_mut_step = step; }
}
int vs_first_mutation(long* step) { if (step) *step = g_mut_step; return g_mut_static; }

int vs_guard_violation(char* buf, int buflen) {
  for (size_t i = 0; i < g_guards.size(); ++i) {
    const GuardVar& g = g_guards[i];
    const char* what = nullptr;
    if (g.acquires_won > 1) what = "initialised more than once";
    else if (g.aborts > 0) what = "initialiser aborted";
    else if (g.acquires_won != g.releases) what = "acquire/release unbalanced";
    if (what) { snprintf(buf, buflen, "%s: %s (won=%d rel=%d abort=%d)", g.name.c_str(), what,
                         g.acquires_won, g.releases, g.aborts); return (int)i; }
  }
  return -1;
}

int vs_statics_initialised(void) {
  int n = 0;
  for (size_t k = 0; k < g_statics.size(); ++k) if (g_statics[k].initialised && g_statics[k].guard >= 0) ++n;
  return n;
}

uint64_t vs_statics_final_hash(void) {
  Fnv f;
  for (size_t k = 0; k < g_statics.size(); ++k) {
    const StaticObj& o = g_statics[k];
    if (!o.initialised) continue;
    f.str(o.mangled.c_str());
    f.u64(vsim::fnv_bytes((const void*)o.addr, o.size));
  }
  return f.h;
}

uint64_t vs_static_hash_at(int i) {
  if (i < 0 || (size_t)i >= g_statics.size() || !g_statics[i].initialised) return 0;
  uint64_t h = vsim::fnv_bytes((const void*)g_statics[i].addr, g_statics[i].size);
  return h ? h : 1;
}

void vs_dump_statics(FILE* f) {
  for (size_t k = 0; k < g_statics.size(); ++k) {
    const StaticObj& o = g_statics[k];
    if (!o.initialised) continue;
    fprintf(f, "ST %016llx %zu %s\n", (unsigned long long)vsim::fnv_bytes((const void*)o.addr, o.size),
            o.size, o.name.c_str());
  }
}

// ===========================================================================
// raw memory helpers
// ===========================================================================
void vs_mem_copy(void* dst, const void* src, unsigned long n) {
  volatile unsigned char* d = (volatile unsigned char*)dst; const volatile unsigned char* s = (const volatile unsigned char*)src;
  for (unsigned long i = 0; i < n; ++i) d[i] = s[i];
}
long vs_mem_diff(const void* a, const void* b, unsigned long n, long skip_lo, long skip_hi) {
  const volatile unsigned char* x = (const volatile unsigned char*)a; const volatile unsigned char* y = (const volatile unsigned char*)b;
  for (unsigned long i = 0; i < n; ++i) {
    if ((long)i >= skip_lo && (long)i < skip_hi) continue;
    if (x[i] != y[i]) return (long)i;
  }
  return -1;
}
uint64_t vs_mem_hash(const void* p, unsigned long n) {
  const volatile unsigned char* c = (const volatile unsigned char*)p;
  uint64_t h = 1469598103934665603ull;
  for (unsigned long i = 0; i < n; ++i) { h ^= c[i]; h *= 1099511628211ull; }
  return h;
}
static long g_busy[32][2]; static int g_nbusy = 0; static volatile int g_flag = 0;
void vs_busy_clear(void) { g_nbusy = 0; }
void vs_busy_add(long lo, long hi) { if (g_nbusy < 32) { g_busy[g_nbusy][0] = lo; g_busy[g_nbusy][1] = hi; ++g_nbusy; } }
int vs_busy_test(long off) { for (int i = 0; i < g_nbusy; ++i) if (off >= g_busy[i][0] && off < g_busy[i][1]) return 1; return 0; }
void vs_flag_set(int v) { g_flag = v; }
int vs_flag_get(void) { return g_flag; }
void vs_preempt_in(uint64_t n) {
  const int t = tl_tid;
  if (t < 0) return;
  g_pre[t].clear();   // no allocation: capacity reserved in vs_sim_begin
  g_pre[t].push_back(g_entries[t] + n);
  g_pre_i[t] = 0;
}

// ===========================================================================
// rand seam (-Wl,--wrap=rand)
// ===========================================================================
int __real_rand(void);
int __wrap_rand(void) {
  if (!g_rand_seeded) return __real_rand();
  const uint64_t idx = g_rand_draws++;
  int v = (int)(g_rand_rng.next() >> 33);  // 31 bits, RAND_MAX = 2^31-1
  for (size_t i = 0; i < g_rand_extremes.size(); ++i)
    if (g_rand_extremes[i].first == idx) { v = g_rand_extremes[i].second ? RAND_MAX : 0; ++g_rand_extremes_fired; }
  return v;
}
void vs_rand_mode(int seeded, uint64_t seed) {
  g_rand_seeded = seeded != 0; g_rand_rng.reseed(seed); g_rand_draws = 0;
  g_rand_extremes.clear(); g_rand_extremes_fired = 0;
}
uint64_t vs_rand_draws(void) { return g_rand_draws; }
void vs_rand_extreme_at(uint64_t i, int which) { g_rand_extremes.push_back({i, which}); }
long vs_rand_extremes_fired(void) { return g_rand_extremes_fired; }
void vs_rand_save(uint64_t* st) { for (int i = 0; i < 4; ++i) st[i] = g_rand_rng.s[i]; st[4] = g_rand_draws; }
void vs_rand_restore(const uint64_t* st) { for (int i = 0; i < 4; ++i) g_rand_rng.s[i] = st[i]; g_rand_draws = st[4]; }

// ===========================================================================
// sanitizer hooks
// ===========================================================================
void __tsan_on_report(void*) {
  if (g_tsan_reports.fetch_add(1) == 0) g_tsan_first_step = g_step;
}
int vs_tsan_reports(void) { return g_tsan_reports.load(); }
long vs_tsan_first_step(void) { return g_tsan_first_step; }

__attribute__((used, visibility("default"))) const char* __asan_default_options() {
  return "exitcode=77:detect_leaks=0:abort_on_error=0:allocator_may_return_null=1";
}
__attribute__((used, visibility("default"))) const char* __ubsan_default_options() {
  return "halt_on_error=1:exitcode=77:print_stacktrace=1";
}
__attribute__((used, visibility("default"))) const char* __tsan_default_options() {
  return "halt_on_error=0:exitcode=66:report_signal_unsafe=0:report_thread_leaks=0:"
         "external_symbolizer_path=/usr/bin/llvm-symbolizer-14:history_size=4";
}

}  // extern "C"
