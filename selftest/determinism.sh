#!/bin/bash
# Determinism proof (DESIGN section 8): every run is a pure function of its seed.
# For each check / flavour, N run seeds are executed twice in fresh processes, once with many workers and
# once with few, and the per-run fingerprint (event-log hash / history hash + status + counters) is diffed.
# usage: determinism.sh [N=400] [checks="C14 C09 C10 C08 C03"]
N="${1:-400}"; CHECKS="${2:-C14 C09 C10 C08 C03}"
VERIF="$(cd "$(dirname "$0")/.." && pwd)"; B="${VERIF_BUILD_DIR:-$VERIF/build}"
TMP="$(mktemp -d /tmp/vsim_det.XXXXXX)"; trap 'rm -rf "$TMP"' EXIT
flavours_of() { case "$1" in C14) echo "tsan ship";; C09) echo "ship assert asan";; C10) echo "tsan ship asan";; *) echo "ship assert";; esac; }
fail=0
for c in $CHECKS; do
  for fl in $(flavours_of "$c"); do
    bin="$B/$fl/manifsim"; [ -x "$bin" ] || { echo "skip $c/$fl (not built)"; continue; }
    run() { # $1 = parallelism, $2 = out file
      seq 0 $((N-1)) | xargs -P "$1" -I{} sh -c "$bin --check $c --base 77 --from {} --to \$(({}+1)) 2>/dev/null | grep '^RESULT' | sed 's/ run=[0-9]*//'" | sort > "$2"
    }
    run 16 "$TMP/a"; run 3 "$TMP/b"
    na=$(wc -l < "$TMP/a"); d=$(diff "$TMP/a" "$TMP/b" | grep -c '^[<>]')
    distinct=$(grep -o 'evhash=[0-9a-f]*\|hist=[0-9a-f]*' "$TMP/a" | sort -u | wc -l)
    echo "$c/$fl: runs=$na differing_lines=$d distinct_fingerprints=$distinct"
    [ "$d" -ne 0 ] && { fail=1; diff "$TMP/a" "$TMP/b" | head -4 | cut -c1-300; }
    [ "$na" -ne "$N" ] && { echo "  missing results"; fail=1; }
  done
done
exit $fail
