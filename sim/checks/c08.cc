// C08 (validity under long histories) and C03 (log/exp round trip on every element a
// history produces).  Single simulated caller; the simulated dimension is the
// operation history, the rand() stream and the fault annotations (DESIGN 4.4, 4.5).
#include "checks.h"
#include "../core/vsched.h"
#include <cmath>
#include <cstring>
#include <sstream>
#include <algorithm>

namespace vsim {
namespace {

const int E_WALK = 6, T_WALK = 4;        // slots used by histories
const int E_C = 6, E_S1 = 7, E_S2 = 8, T_C = 4, T_S1 = 5, T_S2 = 6;  // cluster / scratch slots

enum Fault : uint8_t { F_NONE = 0, F_REJECT = 1, F_EDGE = 2, F_RANDX = 3, F_XFER = 5 };

struct Hist {
  const RunOpts& o;
  Result& res;
  bool c03;
  Ctx ctx;
  Plan plan;           // executed plan (recorded when requested)
  bool record;
  Rng rng;
  long nsteps;         // executed library operations
  long idx;            // current plan step index
  double dec_dev[10];  // max unit deviation per decile of the run
  long planned_len;
  Fnv hist;            // hash of the executed history (distinctness measure)
  bool vec_precise[4]; // per group: the shared container holds a cluster whose members are resolvable in the scalar type
  Hist(const RunOpts& o_, Result& r_) : o(o_), res(r_), c03(o_.check == "C03"), record(o_.record != nullptr),
                                        rng(o_.seed), nsteps(0), idx(0), planned_len(1) {
    for (int i = 0; i < 10; ++i) dec_dev[i] = 0;
    for (int i = 0; i < 4; ++i) vec_precise[i] = true;
  }

  double lim(const GroupVT* vt) const { return vt->is_float ? 1e4 : 1e6; }
  double eps_mach(const GroupVT* vt) const { return vt->is_float ? 1.1920929e-07 : 2.220446049250313e-16; }
  // Round-trip tolerances, fixed a priori from conditioning (DESIGN 4.5), with a = eps_mach / sqrt(Constants::eps)
  // (1.5e-9 double, 3.5e-5 float): just above the small-angle switch-over (theta ~ sqrt(eps)) the coefficient
  // (1-cos theta)/theta^2 of V and V^-1 carries an absolute error eps_mach/theta^2, i.e. a/2 relative to the
  // translation it multiplies, in log and again in exp: legitimate error <= ~a*L.  Near theta = pi the term
  // (1+cos theta)/(2 theta sin theta) of V^-1 cancels: legitimate error up to ~10 a*L for pi-theta ~ 1e-8.
  //   rotation parts : quaternion / complex distance <= 0.25 a   (3.7e-10, i.e. ||R'-R||_F <~ 1e-9; float 8.6e-6)
  //   translation    : <= 16 a * s below the switch-over, then 64 eps_mach/theta * s (floor 512 eps_mach), and towards pi
  //                    min(67 a, 64 eps_mach/(pi-theta)) * s for three-dimensional rotation blocks (see tol_lin)
  //   s = 1+L, L = largest translation-like coefficient; (1+L)^2 for groups that multiply two of them (SGal3: v*t).
  double amp(const GroupVT* vt) const { return eps_mach(vt) / std::sqrt(vt->eps); }
  double tol_rot(const GroupVT* vt) const { return 0.25 * amp(vt); }
  //   input conditioning: a valid element may be off the unit sphere by delta < eps; an implementation that reads
  //   cos / sin from the stored coefficients (SE2::log does) turns that into a relative translation error
  //   delta/theta, so 2*delta/theta of the element under test is added to the allowance (it vanishes for
  //   normalised data, where the tight bound applies).
  //   above the switch-over the cancellation error of (1-cos theta)/theta^2 is eps_mach/theta relative (it multiplies
  //   W ~ theta), so the bound shrinks like 64 eps_mach/theta from 16a at theta = 4 sqrt(eps) down to the rounding floor
  //   512 eps_mach (the constants carry a factor >= 4 over the largest error seen on 20 million round trips of the tree);
  //   the widening near pi concerns only three-dimensional rotation blocks (V^-1 of SO(3)); SO(2)-type blocks have no
  //   cancellation there.
  //   towards pi the term (1+cos theta)/(2 theta sin theta) of the SO(3) V^-1 cancels: eps_mach/(pi-theta) relative,
  //   saturating at ~10a (67a allowed) once 1+cos theta underflows the mantissa.
  double tol_lin(const GroupVT* vt, double L, double pi_gap, double input_allowance, double theta) const {
    const double s = (vt->caps & CAP_CROSS) ? (1 + L) * (1 + L) : (1 + L);
    const double em = eps_mach(vt);
    double rel = 16.0 * amp(vt);
    if (theta > 4 * std::sqrt(vt->eps)) rel = std::max(512 * em, 64.0 * em / std::min(theta, 1.0));
    if (pi_gap < 1.0) rel = std::max(rel, std::min(67.0 * amp(vt), 64.0 * em / std::max(pi_gap, 1e-300)));
    return (rel + input_allowance) * s;
  }
  // 2 * max_k |norm(unit block k) - 1| / angle_k   (angle from the logarithm's k-th angular block)
  double input_allowance(const GroupVT* vt, const double* x, const double* logx) const {
    double al = 0;
    for (int k = 0; k < vt->n_unit && k < vt->n_ang; ++k) {
      const double delta = std::fabs(block_norm(x, vt->unit[k]) - 1.0);
      const double theta = block_norm(logx, vt->ang[k]);
      if (delta <= 4 * eps_mach(vt)) continue;          // normalised to working precision
      const double a = theta > 0 ? 2 * delta / theta : 1.0;
      if (a > al) al = a;
    }
    return std::min(al, 1.0);
  }

  std::string cls(const char* oracle, const GroupVT* vt, int op) const {
    std::ostringstream s;
    s << oracle << "/" << vt->name;
    // for the round-trip oracles the operation that happened to produce the element is incidental
    if (!c03) s << "/" << (op_info(op).name ? op_info(op).name : "?");
    return s.str();
  }
  std::string vec_str(const double* c, int n) const {
    std::ostringstream s; s.precision(17);
    s << "(";
    for (int i = 0; i < n; ++i) s << (i ? ", " : "") << c[i];
    s << ")";
    return s.str();
  }

  // ---- operand magnitude precondition ---------------------------------------------------
  bool elem_ok(const GroupCtx& gc, int slot) const {
    double c[32]; gc.vt->get_elem(gc.st, slot, 0, c);
    Validity v = check_validity(gc.vt, c);
    return v.finite && v.max_lin <= lim(gc.vt);
  }
  bool tan_ok(const GroupCtx& gc, int slot) const {
    double c[32]; gc.vt->get_tan(gc.st, slot, 0, c);
    return all_finite(c, gc.vt->dof) && max_abs(c, gc.vt->dof) <= lim(gc.vt);
  }
  bool operands_ok(const GroupCtx& gc, const OpRec& op) const {
    const OpInfo& inf = op_info(op.op);
    switch (inf.cls) {
      case C_ELEM: case C_MUT_E:
        if (!elem_ok(gc, op.a)) return false;
        if (inf.arg2 == A_ELEM && !elem_ok(gc, op.b)) return false;
        if (inf.arg2 == A_TAN && !tan_ok(gc, op.b)) return false;
        return true;
      case C_TAN: case C_MUT_T:
        if (op.op == OP_TM_LOG_INTO) return elem_ok(gc, op.b);
        if (!tan_ok(gc, op.a)) return false;
        if (inf.arg2 == A_ELEM && !elem_ok(gc, op.b)) return false;
        if (inf.arg2 == A_TAN && !tan_ok(gc, op.b)) return false;
        return true;
      case C_ALG:
        if (op.op == OP_INTERP_SLERP || op.op == OP_INTERP_CUBIC || op.op == OP_INTERP_SMOOTH)
          return elem_ok(gc, op.a) && elem_ok(gc, op.b) && tan_ok(gc, op.c % gc.vt->NT) && tan_ok(gc, (op.c + 1) % gc.vt->NT);
        return true;  // averages: checked when the container was filled
      default: return true;
    }
  }

  // ---- C08 invariants on an element value ---------------------------------------------------
  bool check_elem_valid(const GroupCtx& gc, const double* c, const OpRec& op) {
    const GroupVT* vt = gc.vt;
    Validity v = check_validity(vt, c);
    if (!v.finite) {
      res.fail("finite", cls("finite", vt, op.op), std::string("non-finite coefficient after ") + op_info(op.op).name +
               " in " + vt->name + ": " + vec_str(c, vt->rep), idx);
      return false;
    }
    int d = (int)((10 * idx) / std::max(1L, planned_len)); if (d > 9) d = 9; if (d < 0) d = 0;
    if (v.max_unit_dev > dec_dev[d]) dec_dev[d] = v.max_unit_dev;
    res.setmax(vt->is_float ? "max_unit_dev_float" : "max_unit_dev_double", v.max_unit_dev);
    if (!(v.max_unit_dev < vt->eps)) {
      std::ostringstream s; s.precision(6);
      s << "rotation part not unit-norm after " << op_info(op.op).name << " in " << vt->name << ": | ||r||-1 | = "
        << v.max_unit_dev << " >= eps " << vt->eps << " coeffs " << vec_str(c, vt->rep);
      res.fail("unit_norm", cls("unit_norm", vt, op.op), s.str(), idx);
      return false;
    }
    return true;
  }

  // re-constructing the element from its coefficient vector must be accepted
  bool check_reconstruct(const GroupCtx& gc, int slot, const OpRec& op) {
    OpRec r = OpRec(); r.op = OP_M_ASSIGN_EIGEN; r.a = E_S2; r.b = (uint8_t)slot; r.ka = K_OWN; r.kb = K_OWN;
    Out out; gc.vt->exec(gc.st, &r, &out);
    if (out.status != 0) {
      double c[32]; gc.vt->get_elem(gc.st, slot, 0, c);
      res.fail("reconstruct", cls("reconstruct", gc.vt, op.op), std::string("assigning the coefficients produced by ") +
               op_info(op.op).name + " back to a " + gc.vt->name + " raised " + status_name(out.status) + ": " +
               vec_str(c, gc.vt->rep), idx);
      return false;
    }
    return true;
  }

  // ---- C03 invariants ---------------------------------------------------------------------------
  double lin_mag_elem(const GroupVT* vt, const double* c) const { return check_validity(vt, c).max_lin; }
  double lin_scale_elem(const GroupVT* vt, const double* c) const {
    double L = check_validity(vt, c).max_lin;
    return (vt->caps & CAP_CROSS) ? (1 + L) * (1 + L) : (1 + L);
  }
  double lin_mag_tan(const GroupVT* vt, const double* t) const {
    double L = 0;
    for (int i = 0; i < vt->dof; ++i) {
      bool ang = false;
      for (int k = 0; k < vt->n_ang; ++k) if (i >= vt->ang[k].off && i < vt->ang[k].off + vt->ang[k].len) ang = true;
      if (!ang && std::fabs(t[i]) > L) L = std::fabs(t[i]);
    }
    return L;
  }
  static double block_norm(const double* v, const Block& b) {
    long double s = 0; for (int i = 0; i < b.len; ++i) s += (long double)v[b.off + i] * v[b.off + i];
    return (double)sqrtl(s);
  }
  // distance between two coefficient vectors "as transformations"
  void elem_dist(const GroupVT* vt, const double* x, const double* y, double& drot, double& dlin) const {
    drot = 0; dlin = 0;
    for (int k = 0; k < vt->n_unit; ++k) {
      const Block& b = vt->unit[k];
      // compare as rotations: both blocks are scaled to unit norm first (the library accepts
      // |norm-1| < eps, and q, q/|q| denote the same rotation)
      const long double nx = block_norm(x, b), ny = block_norm(y, b);
      long double dm = 0, dp = 0;
      for (int i = 0; i < b.len; ++i) {
        const long double xi = x[b.off + i] / nx, yi = y[b.off + i] / ny;
        dm += (xi - yi) * (xi - yi);
        dp += (xi + yi) * (xi + yi);
      }
      double d = (b.len == 4) ? (double)sqrtl(std::min(dm, dp)) : (double)sqrtl(dm);
      if (!(d <= drot)) drot = d;
    }
    for (int k = 0; k < vt->n_lin; ++k)
      for (int i = 0; i < vt->lin[k].len; ++i) {
        double d = std::fabs(x[vt->lin[k].off + i] - y[vt->lin[k].off + i]);
        if (!(d <= dlin)) dlin = d;
      }
  }

  void c03_probes(const GroupVT* vt, const double* x) {
    for (int k = 0; k < vt->n_unit; ++k) {
      const Block& b = vt->unit[k];
      if (b.len != 4) continue;
      double w = x[b.off + 3];
      double v2 = x[b.off] * x[b.off] + x[b.off + 1] * x[b.off + 1] + x[b.off + 2] * x[b.off + 2];
      if (w < 0) res.add("p.w_negative", 1);
      if (w < 0 && v2 <= vt->eps) res.add("p.w_negative_small_vec", 1);
      if (w >= 0 && v2 <= vt->eps && v2 > 0) res.add("p.small_angle_branch", 1);
      if (v2 > vt->eps / 4 && v2 < vt->eps * 4) res.add("p.near_branch_threshold", 1);
      if (std::fabs(w) < 5e-7) res.add("p.angle_near_pi", 1);
    }
  }

  bool check_c03_elem(const GroupCtx& gc, int slot, const OpRec& op) {
    const GroupVT* vt = gc.vt;
    double x[32]; vt->get_elem(gc.st, slot, 0, x);
    c03_probes(vt, x);
    // log
    OpRec l = OpRec(); l.op = OP_LOG; l.a = (uint8_t)slot; l.ka = K_OWN;
    l.mask = (uint8_t)(nsteps & 1);     // the overload that also returns the Jacobian must compute the same logarithm
    Out lo; vt->exec(gc.st, &l, &lo);
    if (lo.status != 0) {
      res.fail("log_throws", cls("log_throws", vt, op.op), std::string("log() raised ") + status_name(lo.status) + " on " +
               vt->name + vec_str(x, vt->rep), idx);
      return false;
    }
    if (!all_finite(lo.v, lo.nv)) {
      res.fail("log_finite", cls("log_finite", vt, op.op), std::string("log() not finite on ") + vt->name + " " +
               vec_str(x, vt->rep) + " -> " + vec_str(lo.v, lo.nv), idx);
      return false;
    }
    const double em = eps_mach(vt);
    double pi_gap = 1e300;      // smallest pi - theta over the three-dimensional rotation blocks
    double theta_min = 1e300;
    for (int k = 0; k < vt->n_ang; ++k) {
      double a = block_norm(lo.v, vt->ang[k]);
      if (a < theta_min) theta_min = a;
      if (vt->ang[k].len == 3) pi_gap = std::min(pi_gap, std::fabs(M_PI - a));
      if (a > M_PI - 1e-6) res.add("p.log_angle_near_pi", 1);
      if (a > M_PI * (1 + 4 * em)) {
        std::ostringstream s; s.precision(17);
        s << "log() of " << vt->name << " " << vec_str(x, vt->rep) << " has rotation angle " << a << " > pi";
        res.fail("log_principal", cls("log_principal", vt, op.op), s.str(), idx);
        return false;
      }
    }
    // exp(log X) == X as a transformation
    vt->set_tan(gc.st, T_S2, 2, lo.v);
    OpRec e = OpRec(); e.op = OP_EXP; e.a = T_S2; e.ka = K_OWN;
    Out eo; vt->exec(gc.st, &e, &eo);
    if (eo.status != 0 || !all_finite(eo.v, eo.nv)) {
      res.fail("explog_finite", cls("explog_finite", vt, op.op), std::string("exp(log X) failed on ") + vt->name + " " +
               vec_str(x, vt->rep), idx);
      return false;
    }
    double drot, dlin; elem_dist(vt, x, eo.v, drot, dlin);
    const double tol_rot = this->tol_rot(vt);
    const double tol_lin = this->tol_lin(vt, lin_mag_elem(vt, x), pi_gap, input_allowance(vt, x, lo.v), theta_min);
    res.setmax(vt->is_float ? "max_roundtrip_rot_float" : "max_roundtrip_rot_double", drot);
    res.setmax(vt->is_float ? "max_roundtrip_lin_rel_float" : "max_roundtrip_lin_rel_double", dlin / lin_scale_elem(vt, x));
    res.setmax(vt->is_float ? "max_lin_error_over_tolerance_float" : "max_lin_error_over_tolerance_double", dlin / tol_lin);
    {
      const char* regime = theta_min <= 4 * std::sqrt(vt->eps) ? "small" : pi_gap < 1e-2 ? "nearpi" : theta_min < 1e-2 ? "mid" : "generic";
      res.setmax((std::string("max_ratio_") + regime + (vt->is_float ? "_f" : "_d")).c_str(), dlin / tol_lin);
    }
    if (!(drot <= tol_rot) || !(dlin <= tol_lin)) {
      std::ostringstream s; s.precision(17);
      s << "exp(log X) != X for " << vt->name << " X=" << vec_str(x, vt->rep) << " log=" << vec_str(lo.v, lo.nv)
        << " exp(log)=" << vec_str(eo.v, eo.nv) << " rot dist " << drot << " (tol " << tol_rot << ") lin dist " << dlin
        << " (tol " << tol_lin << ")";
      res.fail("exp_log_roundtrip", cls("exp_log_roundtrip", vt, op.op), s.str(), idx);
      return false;
    }
    // log(q) == log(-q)
    bool has_quat = false, skip = false;
    double y[32]; std::memcpy(y, x, sizeof(double) * vt->rep);
    for (int k = 0; k < vt->n_unit; ++k) if (vt->unit[k].len == 4) {
      has_quat = true;
      if (std::fabs(x[vt->unit[k].off + 3]) <= 1e-12) skip = true;
      for (int i = 0; i < 4; ++i) y[vt->unit[k].off + i] = -x[vt->unit[k].off + i];
    }
    if (has_quat && !skip) {
      vt->set_elem(gc.st, E_S1, 2, y);
      OpRec l2 = l; l2.a = E_S1;
      Out lo2; vt->exec(gc.st, &l2, &lo2);
      double d = 0;
      for (int i = 0; i < lo.nv && i < lo2.nv; ++i) { double dd = std::fabs(lo.v[i] - lo2.v[i]); if (!(dd <= d)) d = dd; }
      const double tol = 100 * vt->eps * lin_scale_elem(vt, x);
      if (lo2.status != 0 || !(d <= tol)) {
        std::ostringstream s; s.precision(17);
        s << "log(q) != log(-q) for " << vt->name << " X=" << vec_str(x, vt->rep) << " log(X)=" << vec_str(lo.v, lo.nv)
          << " log(-X)=" << vec_str(lo2.v, lo2.nv) << " diff " << d << " tol " << tol;
        res.fail("log_double_cover", cls("log_double_cover", vt, op.op), s.str(), idx);
        return false;
      }
      res.add("n.double_cover_checks", 1);
    }
    res.add("n.roundtrip_checks", 1);
    return true;
  }

  // log(exp t) == t inside the injectivity radius
  bool check_c03_tan(const GroupCtx& gc, int tslot, int eslot, const OpRec& op) {
    const GroupVT* vt = gc.vt;
    double t[32]; vt->get_tan(gc.st, tslot, 0, t);
    // inside the injectivity radius the principal logarithm is unique; within 1e-3 of pi the near-pi tolerance applies
    // (cancellation of 1+cos(theta) in V^-1), within 1e-8 of pi the sign of w is down to rounding and the check stops
    bool near_pi = false;
    double theta_min = 1e300, pi_gap = 1e300;
    for (int k = 0; k < vt->n_ang; ++k) {
      const double a = block_norm(t, vt->ang[k]);
      if (a < theta_min) theta_min = a;
      if (a > M_PI - std::max(1e-8, 1e3 * eps_mach(vt))) return true;   // (float: the library's own theta/2 and cos carry 1e-7 relative error)
      if (a > M_PI - 1e-3 && vt->ang[k].len == 3) near_pi = true;
      if (vt->ang[k].len == 3) pi_gap = std::min(pi_gap, std::fabs(M_PI - a));
    }
    if (near_pi) res.add("p.logexp_near_pi", 1);
    OpRec l = OpRec(); l.op = OP_LOG; l.a = (uint8_t)eslot; l.ka = K_OWN;
    Out lo; vt->exec(gc.st, &l, &lo);
    if (lo.status != 0) return true;  // reported by check_c03_elem
    double dang = 0, dlin = 0;
    for (int i = 0; i < vt->dof; ++i) {
      bool ang = false;
      for (int k = 0; k < vt->n_ang; ++k) if (i >= vt->ang[k].off && i < vt->ang[k].off + vt->ang[k].len) ang = true;
      double d = std::fabs(lo.v[i] - t[i]);
      if (ang) { if (!(d <= dang)) dang = d; } else { if (!(d <= dlin)) dlin = d; }
    }
    const double tol_ang = (near_pi ? 20 : 2) * this->tol_rot(vt);
    double xe[32]; vt->get_elem(gc.st, eslot, 0, xe);
    const double tol_lin = this->tol_lin(vt, lin_mag_tan(vt, t), pi_gap, input_allowance(vt, xe, t), theta_min);
    if (!(dang <= tol_ang) || !(dlin <= tol_lin)) {
      std::ostringstream s; s.precision(17);
      s << "log(exp t) != t for " << vt->name << " t=" << vec_str(t, vt->dof) << " log(exp t)=" << vec_str(lo.v, lo.nv)
        << " ang diff " << dang << " (tol " << tol_ang << ") lin diff " << dlin << " (tol " << tol_lin << ")";
      res.fail("log_exp_roundtrip", cls("log_exp_roundtrip", vt, op.op), s.str(), idx);
      return false;
    }
    res.add("n.logexp_checks", 1);
    return true;
  }

  // ---- executing one step ---------------------------------------------------------------------------
  bool exec_op_once(const Step& s) {
    const GroupCtx& gc = ctx.g[s.group];
    const GroupVT* vt = gc.vt;
    const OpRec& op = s.op;
    const OpInfo& inf = op_info(op.op);
    if (op.fault != F_REJECT && !operands_ok(gc, op)) { res.add("n.skipped_magnitude", 1); return true; }
    if (op.fault != F_REJECT && (op.op == OP_AVG_BIINV || op.op == OP_AVG || op.op == OP_AVG_FL || op.op == OP_AVG_FR) &&
        !vec_precise[s.group & 3]) { res.add("n.skipped_average_precision", 1); return true; }
    compose_probe(gc, op);
    const uint64_t draws0 = vs_rand_draws();
    if (op.fault == F_RANDX) vs_rand_extreme_at(draws0 + (op.fparam >> 1), op.fparam & 1);
    Out out;
    vt->exec(gc.st, &op, &out);
    ++nsteps;
    res.add((std::string("op.") + inf.name).c_str(), 1);
    if (out.status == 9) { res.add("n.not_applicable", 1); return true; }
    if (op.fault == F_REJECT) {
      res.add("f.rejected_call", 1);
      if (out.status != (int)op.fparam) {
        std::ostringstream m;
        m << "call that must be refused (" << inf.name << " in " << vt->name << ", c=" << (int)(signed char)op.c << " s=" << op.s
          << ") returned " << status_name(out.status) << ", expected " << status_name(op.fparam);
        res.fail("rejected_call", cls("rejected_call", vt, op.op), m.str(), idx);
        return false;
      }
      return true;
    }
    if (out.status == 9) { res.add("n.not_applicable", 1); return true; }
    if (out.status != 0) {
      std::ostringstream m;
      m << inf.name << " on valid " << vt->name << " operands raised " << status_name(out.status);
      res.fail("unexpected_exception", cls("unexpected_exception", vt, op.op), m.str(), idx);
      return false;
    }
    if (!inf.draws_rand && vs_rand_draws() != draws0) {
      res.fail("rand_draw", cls("rand_draw", vt, op.op), std::string(inf.name) + " consumed rand()", idx);
      return false;
    }
    if (op.op == OP_DECASTELJAU && !c03) {
      for (int e = 0; e + vt->rep <= out.nv; e += vt->rep)
        if (!check_elem_valid(gc, out.v + e, op)) return false;
      res.add("n.curve_points_checked", out.nv / vt->rep);
      return true;
    }
    ValKind vk = op_value_kind(op.op);
    if (vk == VK_ELEM) {
      int slot;
      double c[32];
      if (inf.cls == C_MUT_E) {
        slot = op.a;
        vt->get_elem(gc.st, slot, op.ka == K_MAP ? 1 : 0, c);
        vt->set_elem(gc.st, slot, 2, c);   // keep view buffer and owning object in step
      } else {
        slot = s.dst >= 0 ? s.dst : E_S1;
        for (int i = 0; i < vt->rep; ++i) c[i] = out.v[i];
        vt->set_elem(gc.st, slot, 2, c);
      }
      if (op.op == OP_CASTRT && op.fault == F_XFER && ctx.g.size() == 2 && out.n1 == ctx.g[1 - s.group].vt->rep) {
        // mixed-precision history: the intermediate cast<Other>() result becomes an element of the other-scalar twin
        const GroupCtx& tw = ctx.g[1 - s.group];
        tw.vt->set_elem(tw.st, op.fparam % E_WALK, 2, out.j1);
        res.add("f.cast_transfer", 1);
        if (!c03) {
          OpRec top = op;
          if (!check_elem_valid(tw, out.j1, top)) return false;
          if (!check_reconstruct(tw, op.fparam % E_WALK, top)) return false;
        }
      }
      if (!c03) {
        if (!check_elem_valid(gc, c, op)) return false;
        if (!check_reconstruct(gc, slot, op)) return false;
      } else {
        Validity v = check_validity(vt, c);
        if (v.finite && v.max_unit_dev < vt->eps && v.max_lin <= lim(vt)) {
          if (!check_c03_elem(gc, slot, op)) return false;
          if ((op.op == OP_EXP || op.op == OP_RETRACT) && !check_c03_tan(gc, op.a, slot, op)) return false;
        } else {
          res.add("n.skipped_invalid", 1);   // validity of produced elements is C08's business
        }
      }
    } else if (vk == VK_TAN) {
      double c[32];
      int slot;
      if (inf.cls == C_MUT_T) { slot = op.a; vt->get_tan(gc.st, slot, op.ka == K_MAP ? 1 : 0, c); vt->set_tan(gc.st, slot, 2, c); }
      else { slot = s.dst >= 0 ? s.dst : T_S1; for (int i = 0; i < vt->dof; ++i) c[i] = out.v[i]; vt->set_tan(gc.st, slot, 2, c); }
      if (!c03 && !all_finite(c, vt->dof)) {
        res.fail("finite", cls("finite", vt, op.op), std::string("non-finite tangent from ") + inf.name + " in " + vt->name, idx);
        return false;
      }
    }
    return true;
  }

  bool exec_step(const Step& s) {
    const GroupCtx& gc = ctx.g[s.group];
    const GroupVT* vt = gc.vt;
    switch (s.kind) {
      case ST_SETE: vt->set_elem(gc.st, s.slot, 2, s.vals.data()); return true;
      case ST_SETT: vt->set_tan(gc.st, s.slot, 2, s.vals.data()); return true;
      case ST_SETP: vt->set_pt(gc.st, s.slot, s.vals.data()); return true;
      case ST_SETVEC: {
        int sl[16]; int n = 0;
        for (double v : s.vals) if (n < 16 && elem_ok(gc, (int)v)) sl[n++] = (int)v;
        if (n == 0 && s.slot == 0) { sl[n++] = 0; }
        if (s.slot == 0) {
          // Averaging iterates m <- m (+) mean(X_i (-) m); the differences X_i (-) m are only meaningful when the rounding
          // noise of the group operations, eps_mach * (1+L) (squared for SGal3, which multiplies velocity by time), is far
          // below the cluster radius.  A float SGal3 cluster at coordinates ~5000 has noise ~3 on a radius of 0.3: the
          // iteration is then fed garbage and may diverge to NaN, which is honest loss of precision, not an invalid result
          // of a valid use.  Such containers are not averaged.
          double c[32]; vt->get_elem(gc.st, sl[0], 0, c);
          const double L = check_validity(vt, c).max_lin;
          const double noise = eps_mach(vt) * ((vt->caps & CAP_CROSS) ? (1 + L) * (1 + L) : (1 + L));
          vec_precise[s.group & 3] = noise < 1e-4;
        }
        vt->set_vec(gc.st, sl, n, s.slot == 1); return true;   // slot == 1: append
      }
      case ST_NEG: {
        double c[32]; vt->get_elem(gc.st, s.slot, 0, c);
        for (int k = 0; k < vt->n_unit; ++k) if (vt->unit[k].len == 4)
          for (int i = 0; i < 4; ++i) c[vt->unit[k].off + i] = -c[vt->unit[k].off + i];
        vt->set_elem(gc.st, s.slot, 2, c);
        res.add("f.rerepresent", 1);
        if (c03) {
          Validity v = check_validity(vt, c);
          if (!(v.finite && v.max_unit_dev < vt->eps && v.max_lin <= lim(vt))) { res.add("n.skipped_invalid", 1); return true; }
          OpRec op = OpRec(); op.op = OP_COEFFS; return check_c03_elem(gc, s.slot, op);
        }
        return true;
      }
      case ST_OP:
        for (int r = 0; r < s.rep; ++r) if (!exec_op_once(s)) { res.num["fail_rep"] = r; return false; }
        return true;
      default: return true;
    }
  }

  void hash_step(const Step& s) {
    hist.i32(s.kind); hist.i32(s.group); hist.i32(s.slot); hist.i32(s.dst); hist.i32(s.rep);
    if (s.kind == ST_OP) { hist.i32(s.op.op); hist.i32(s.op.a); hist.i32(s.op.b); hist.i32(s.op.c); hist.i32(s.op.variant); hist.dbl(s.op.s); }
    for (double v : s.vals) hist.dbl(v);
  }
  // was the product of the two operands' rotation parts renormalised? (recomputed from the raw norms)
  void compose_probe(const GroupCtx& gc, const OpRec& op) {
    if (!(op.op == OP_COMPOSE || op.op == OP_MUL || op.op == OP_M_MULEQ)) return;
    double x[32], y[32]; gc.vt->get_elem(gc.st, op.a, 0, x); gc.vt->get_elem(gc.st, op.b, 0, y);
    for (int k = 0; k < gc.vt->n_unit; ++k) {
      const Block& b = gc.vt->unit[k];
      double nx = 0, ny = 0;
      for (int i = 0; i < b.len; ++i) { nx += x[b.off + i] * x[b.off + i]; ny += y[b.off + i] * y[b.off + i]; }
      if (std::fabs(nx * ny - 1.0) > gc.vt->eps) res.add("p.renorm_expected", 1); else res.add("p.renorm_not_expected", 1);
    }
  }
  bool push(const Step& s) {
    hash_step(s);
    if (record) plan.steps.push_back(s);
    bool ok = exec_step(s);
    ++idx;
    return ok;
  }

  // ---- generation ---------------------------------------------------------------------------------------
  double pick_angle(const GroupVT* vt) {
    double u = rng.unit();
    if (u < 0.55) return std::fabs(rng.logmag(1e-12, M_PI));
    if (u < 0.62) return 0.0;
    if (u < 0.72) return std::sqrt(vt->eps) * rng.uniform(0.4, 2.5);      // around the small-angle switch-over
    if (u < 0.82) return M_PI - std::fabs(rng.logmag(1e-12, 1e-2));      // close to pi
    if (u < 0.90) return rng.uniform(M_PI, 2 * M_PI - 1e-9);             // beyond pi
    return rng.uniform(0, M_PI);
  }
  void lin_range(const GroupVT* vt, double& lo, double& hi) {
    double u = rng.unit();
    if (u < 0.15) { lo = hi = 0; }
    else if (u < 0.75) { lo = 1e-3; hi = 10; }
    else if (u < 0.9) { lo = 1e-8; hi = 1e-3; }
    else { lo = 10; hi = vt->is_float ? 1e3 : 1e5; }
  }
  Step fresh_tan(int g, int slot) {
    const GroupVT* vt = ctx.g[g].vt;
    TanSpec sp; sp.angle = pick_angle(vt); lin_range(vt, sp.lin_lo, sp.lin_hi); sp.sign1 = rng.chance(0.5) ? 1 : -1;
    double t[32]; gen_tan(vt, rng, sp, t);
    return make_set(ST_SETT, g, slot, t, vt->dof);
  }
  Step fresh_elem(int g, int slot) {
    const GroupVT* vt = ctx.g[g].vt;
    ElemSpec sp; sp.angle = std::min(pick_angle(vt), M_PI); sp.neg_hemisphere = rng.chance(0.4);
    if (rng.chance(0.08)) sp.exact = 1 + (int)rng.below(2);   // w == +-0 half turns, exact quarter turns (their product has w == 0)
    lin_range(vt, sp.lin_lo, sp.lin_hi);
    double c[32]; gen_elem(vt, rng, sp, c);
    return make_set(ST_SETE, g, slot, c, vt->rep);
  }
  Step edge_elem(int g, int slot) {
    // user data whose rotation norm is off by just under the acceptance threshold
    const GroupVT* vt = ctx.g[g].vt;
    ElemSpec sp; lin_range(vt, sp.lin_lo, sp.lin_hi);
    double c[32]; gen_elem(vt, rng, sp, c);
    double f = 1.0 + (rng.chance(0.5) ? 1 : -1) * 0.9 * vt->eps;
    for (int k = 0; k < vt->n_unit; ++k)
      for (int i = 0; i < vt->unit[k].len; ++i) c[vt->unit[k].off + i] = round_scalar(vt, c[vt->unit[k].off + i] * f);
    return make_set(ST_SETE, g, slot, c, vt->rep);
  }

  bool init_pool(int g) {
    const GroupVT* vt = ctx.g[g].vt;
    for (int i = 0; i < vt->NE; ++i) if (!push(fresh_elem(g, i))) return false;
    for (int i = 0; i < vt->NT; ++i) if (!push(fresh_tan(g, i))) return false;
    for (int i = 0; i < vt->NP; ++i) { double p[32]; gen_pt(vt, rng, 1e-3, 10, p); if (!push(make_set(ST_SETP, g, i, p, vt->dim))) return false; }
    Step v; v.kind = ST_SETVEC; v.group = (uint8_t)g; for (int i = 0; i < E_WALK; ++i) v.vals.push_back(i);
    return push(v);
  }

  // slots E_S1.. are not enough for a cluster: build it in the walk slots 0..n-1 \ {centre}?  No:
  // the cluster lives in the shared container only; pool slots stay untouched.
  bool cluster(int g, int centre, int min_size = 1) {
    const GroupVT* vt = ctx.g[g].vt;
    int n = std::max(min_size, 1 + (int)rng.below(6));
    // member i = centre (+) small tangent, computed by the library into scratch slot, then appended
    Step v0; v0.kind = ST_SETVEC; v0.group = (uint8_t)g; v0.vals.push_back(centre);
    if (!push(v0)) return false;
    for (int i = 1; i < n; ++i) {
      TanSpec sp; sp.angle = rng.uniform(0, 0.3); sp.lin_lo = 1e-4; sp.lin_hi = 0.3; sp.sign1 = rng.chance(0.5) ? 1 : -1;
      double t[32]; gen_tan(vt, rng, sp, t);
      if (!push(make_set(ST_SETT, g, T_C, t, vt->dof))) return false;
      Step p = make_op(g, OP_RPLUS, centre, T_C, E_C);
      if (!push(p)) return false;
      Step v; v.kind = ST_SETVEC; v.group = (uint8_t)g; v.slot = 1;  // slot=1: append
      v.vals.push_back(E_C);
      if (!push(v)) return false;
    }
    return true;
  }

  Step rejected_call(int g) {
    const GroupVT* vt = ctx.g[g].vt;
    Step s = make_op(g, OP_GENERATOR, 0, 0, -1);
    s.op.fault = F_REJECT;
    switch (rng.below(6)) {
      case 0: s.op.op = OP_GENERATOR; s.op.c = (uint8_t)(signed char)(rng.chance(0.5) ? -1 : vt->dof + (int)rng.below(3)); s.op.fparam = 1; break;
      case 1: s.op.op = OP_INTERP_SLERP; s.op.a = 0; s.op.b = 1; s.op.s = rng.chance(0.5) ? -0.25 : 1.5; s.op.fparam = 2; break;
      case 2: s.op.op = rng.chance(0.5) ? OP_INTERP_CUBIC : OP_INTERP_SMOOTH; s.op.a = 1; s.op.b = 2; s.op.s = rng.chance(0.5) ? -1e-9 : 1.0000001; s.op.fparam = 2; break;
      case 3: s.op.op = OP_SMOOTH_PHI; s.op.c = rng.chance(0.5) ? 0 : 5; s.op.s = 0.5; s.op.fparam = 3; break;
      case 4: s.op.op = (uint16_t)(OP_AVG_BIINV + rng.below(4)); s.op.variant = V_ALT; s.op.fparam = 2; break;
      default: s.op.op = OP_DECASTELJAU; s.op.variant = V_ALT; s.op.fparam = 2; break;
    }
    return s;
  }

  bool walk_step(int g) {
    const GroupVT* vt = ctx.g[g].vt;
    const GroupCtx& gc = ctx.g[g];
    // re-seed slots that grew beyond the representable-range guard (a user would rescale)
    for (int i = 0; i < E_WALK; ++i) if (!elem_ok(gc, i)) { res.add("n.reseed", 1); return push(fresh_elem(g, i)); }
    for (int i = 0; i < T_WALK; ++i) if (!tan_ok(gc, i)) { res.add("n.reseed", 1); return push(fresh_tan(g, i)); }
    int a = rng.below(E_WALK), b = rng.below(E_WALK), dst = rng.below(E_WALK), ts = rng.below(T_WALK);
    uint32_t w = rng.below(100);
    Step s;
    if (w < 12) {  // exp of a fresh tangent
      if (!push(fresh_tan(g, ts))) return false;
      s = make_op(g, rng.chance(0.9) ? OP_EXP : OP_RETRACT, ts, 0, dst);
    } else if (w < 26) {
      int r = rng.below(3);
      s = make_op(g, r == 0 ? OP_COMPOSE : r == 1 ? OP_MUL : OP_M_MULEQ, a, b, dst);
    } else if (w < 33) {
      s = make_op(g, OP_INVERSE, a, 0, dst);
    } else if (w < 40) {
      s = make_op(g, OP_BETWEEN, a, b, dst);
    } else if (w < 58) {  // plus family with fresh or history-produced tangent
      if (rng.chance(0.7)) { if (!push(fresh_tan(g, ts))) return false; }
      static const int ops[] = {OP_RPLUS, OP_LPLUS, OP_PLUS, OP_ADD, OP_M_PLUSEQ, OP_T_RPLUS_X, OP_T_LPLUS_X, OP_T_PLUS_X, OP_T_ADD_X};
      int op = ops[rng.below(9)];
      if (op_info(op).cls == C_TAN) s = make_op(g, op, ts, a, dst); else s = make_op(g, op, a, ts, dst);
    } else if (w < 66) {  // tangents produced by the library feed later steps
      static const int ops[] = {OP_LOG, OP_RMINUS, OP_LMINUS, OP_MINUS, OP_SUB};
      int op = ops[rng.below(5)];
      s = make_op(g, op, a, b, ts);
    } else if (w < 74) {
      s = make_op(g, OP_INTERP_SLERP + (int)rng.below(3), a, b, dst);
      s.op.c = (uint8_t)rng.below(T_WALK);
      double u = rng.unit();
      s.op.s = round_scalar(vt, u < 0.12 ? 0.0 : u < 0.24 ? 1.0 : u < 0.36 ? 1.0 - std::fabs(rng.logmag(1e-12, 1e-2))
                                : u < 0.44 ? std::fabs(rng.logmag(1e-12, 1e-2)) : rng.unit());
      if (rng.chance(0.3)) s.op.variant = V_ALT;
    } else if (w < 79) {
      // averaging is an iteration with a convergence domain (points within a moderate geodesic radius
      // of each other, cf. C16): the set is a cluster built with the library around one pool element
      if (!cluster(g, a)) return false;
      s = make_op(g, OP_AVG_BIINV + (int)rng.below(4), 0, 0, dst);
    } else if (w < 84) {
      s = make_op(g, OP_CASTRT, a, 0, dst);
      if (plan.cfg_int("twins", 0)) { s.op.fault = F_XFER; s.op.fparam = (uint16_t)rng.below(E_WALK); }
    } else if (w < 89) {
      s = make_op(g, rng.chance(0.5) ? OP_RANDOM : OP_M_SETRANDOM, a, 0, dst);
      if (rng.chance(0.25)) {  // rand() returns a legal extreme at a seeded draw
        s.op.fault = F_RANDX;
        s.op.fparam = (uint16_t)((rng.below(8) << 1) | rng.below(2));
      }
    } else if (w < 92) {
      s = make_op(g, OP_M_NORMALIZE, a, 0, -1);
    } else if (w < 95) {
      s = make_op(g, OP_M_ALIAS, a, b, -1); s.op.c = (uint8_t)rng.below(AL__N);
    } else if (w < 96) {
      int r = rng.below(4);
      if (r == 0) s = make_op(g, OP_M_SETIDENTITY, a, 0, -1);
      else if (r == 1) { s = make_op(g, OP_M_SETTERS, a, b, -1); s.op.c = (uint8_t)rng.below(3); }      // quat() / translation() setters
      else if (r == 3) { s = make_op(g, OP_CTOR, a, 0, dst); s.op.c = (uint8_t)rng.below(20); }        // rebuilt through a component constructor
      else { s = make_op(g, OP_T_SCALE, ts, 0, ts); s.op.s = round_scalar(vt, rng.chance(0.5) ? rng.uniform(-3, 3) : rng.logmag(1e-9, 1e3)); }
    } else if (w < 97 && rng.chance(0.5)) {
      if (rng.chance(0.5)) {
        // curve fitting over a cluster: every returned curve point is an element
        if (vt->is_float) return true;
        if (!cluster(g, a, 3)) return false;
        s = make_op(g, OP_DECASTELJAU, 0, 0, -1); s.op.c = (uint8_t)rng.below(4);
      } else {
        // a tangent with subnormal components divided by a subnormal scalar: the quotient is an ordinary tangent
        const double den = std::fabs(rng.logmag(1e-312, 1e-306));
        TanSpec sp; sp.angle = rng.uniform(0.01, 3.0); sp.lin_lo = 1e-3; sp.lin_hi = 10;
        double t[32]; gen_tan(vt, rng, sp, t);
        if (vt->is_float) return true;
        for (int i = 0; i < vt->dof; ++i) t[i] *= den;
        if (!push(make_set(ST_SETT, g, ts, t, vt->dof))) return false;
        Step d = make_op(g, OP_TM_DIVEQ, ts, 0, -1); d.op.s = den; d.op.ka = K_OWN;
        if (!push(d)) return false;
        res.add("f.subnormal_ratio", 1);
        s = make_op(g, OP_EXP, ts, 0, dst);
      }
    } else if (w < 97) {
      Step n; n.kind = ST_NEG; n.group = (uint8_t)g; n.slot = a; return push(n);
    } else if (w < 98) {
      res.add("f.edge_norm", 1);
      return push(edge_elem(g, a));
    } else {
      return push(rejected_call(g));
    }
    // operands through owning objects or views of the user's buffers (a third of the steps)
    {
      const OpInfo& inf = op_info(s.op.op);
      s.op.ka = K_OWN; s.op.kb = K_OWN;
      if (rng.chance(0.33)) {
        s.op.ka = (uint8_t)((inf.cls == C_MUT_E || inf.cls == C_MUT_T) ? K_MAP : (rng.chance(0.5) ? K_MAP : K_CMAP));
        s.op.kb = (uint8_t)rng.below(3);
        res.add("n.steps_through_views", 1);
      }
    }
    return push(s);
  }

  // scripted openings that build hard elements the way users obtain them (C03)
  bool scenario(int g) {
    const GroupVT* vt = ctx.g[g].vt;
    double u[3]; gen_unit_axis(rng, u);
    double lo, hi; lin_range(vt, lo, hi);
    switch (rng.below(5)) {
      case 0: {  // exp(theta u) * exp((2pi - theta - delta) u): total angle 2pi - delta
        double theta = rng.uniform(0.3, 3.0);
        double delta = std::fabs(rng.logmag(1e-12, 1.0));
        TanSpec a; a.angle = theta; a.axis = u; a.lin_lo = lo; a.lin_hi = hi;
        TanSpec b; b.angle = 2 * M_PI - theta - delta; b.axis = u; b.lin_lo = lo; b.lin_hi = hi;
        double t[32];
        gen_tan(vt, rng, a, t); if (!push(make_set(ST_SETT, g, 0, t, vt->dof))) return false;
        gen_tan(vt, rng, b, t); if (!push(make_set(ST_SETT, g, 1, t, vt->dof))) return false;
        Step e1 = make_op(g, OP_EXP, 0, 0, 0), e2 = make_op(g, OP_EXP, 1, 0, 1), c = make_op(g, OP_COMPOSE, 0, 1, 2);
        res.add("p.scenario_near_2pi", 1);
        return push(e1) && push(e2) && push(c);
      }
      case 1: {  // chain of near-pi rotations about one axis
        int n = 2 + rng.below(4);
        for (int i = 0; i < n; ++i) {
          TanSpec a; a.angle = M_PI - std::fabs(rng.logmag(1e-9, 1e-2)); a.axis = u; a.lin_lo = lo; a.lin_hi = hi;
          double t[32]; gen_tan(vt, rng, a, t);
          if (!push(make_set(ST_SETT, g, 0, t, vt->dof))) return false;
          if (!push(make_op(g, OP_EXP, 0, 0, 1))) return false;
          if (!push(make_op(g, i ? OP_M_MULEQ : OP_M_ASSIGN, 2, 1, -1))) return false;
        }
        res.add("p.scenario_pi_chain", 1);
        return true;
      }
      case 2: {  // near identities: X * X^-1, X.between(X + tiny)
        if (!push(make_op(g, OP_INVERSE, 0, 0, 1))) return false;
        if (!push(make_op(g, OP_COMPOSE, 0, 1, 2))) return false;
        TanSpec a; a.angle = std::fabs(rng.logmag(1e-12, 1e-6)); a.lin_lo = 1e-12; a.lin_hi = 1e-6;
        double t[32]; gen_tan(vt, rng, a, t);
        if (!push(make_set(ST_SETT, g, 0, t, vt->dof))) return false;
        if (!push(make_op(g, OP_RPLUS, 0, 0, 3))) return false;
        res.add("p.scenario_near_identity", 1);
        return push(make_op(g, OP_BETWEEN, 0, 3, 4));
      }
      case 3: {  // negative hemisphere by re-representation, then keep composing
        Step n; n.kind = ST_NEG; n.group = (uint8_t)g; n.slot = rng.below(E_WALK);
        res.add("p.scenario_rerepresent", 1);
        return push(n);
      }
      default: {  // sub-threshold tangents
        TanSpec a; a.angle = std::sqrt(vt->eps) * rng.uniform(0.1, 3); a.lin_lo = lo; a.lin_hi = hi;
        double t[32]; gen_tan(vt, rng, a, t);
        if (!push(make_set(ST_SETT, g, 0, t, vt->dof))) return false;
        res.add("p.scenario_threshold", 1);
        return push(make_op(g, OP_EXP, 0, 0, rng.below(E_WALK)));
      }
    }
  }

  bool alternation(int g, long reps) {
    // A then B, repeated: X *= Y ; X = X.inverse()   |   X += t ; X = cast round trip   |   X = X*X ; normalize
    const GroupVT* vt = ctx.g[g].vt;
    int kind = rng.below(3);
    res.str["repetition"] = std::string("alt") + std::to_string(kind);
    ElemSpec sp; sp.lin_lo = 1e-6; sp.lin_hi = vt->is_float ? 1e-5 : 1e-3;
    double c[32]; gen_elem(vt, rng, sp, c);
    if (!push(make_set(ST_SETE, g, 1, c, vt->rep))) return false;
    TanSpec tsp; tsp.angle = rng.uniform(0.01, 3.0); tsp.lin_lo = 1e-6; tsp.lin_hi = 1e-4;
    double t[32]; gen_tan(vt, rng, tsp, t);
    if (!push(make_set(ST_SETT, g, 0, t, vt->dof))) return false;
    Step a, b;
    if (kind == 0) { a = make_op(g, OP_M_MULEQ, 0, 1, -1); b = make_op(g, OP_M_ALIAS, 0, 0, -1); b.op.c = AL_INVERSE; }
    else if (kind == 1) { a = make_op(g, OP_M_PLUSEQ, 0, 0, -1); b = make_op(g, OP_CASTRT, 0, 0, 0); }
    else { a = make_op(g, OP_M_ALIAS, 0, 0, -1); a.op.c = AL_SQUARE; b = make_op(g, OP_M_NORMALIZE, 0, 0, -1); }
    const long n = std::min(reps, 40000L) / 2;   // every step is an explicit plan line, so that a failure replays and shrinks
    planned_len = 2 * n;
    for (long i = 0; i < n; ++i)
      if (!push(a) || !push(b)) { res.num["alt_iterations"] = (double)i; return false; }
    return true;
  }

  bool repetition(int g, long reps) {
    const GroupVT* vt = ctx.g[g].vt;
    if (rng.chance(0.2)) return alternation(g, reps);
    int kind = rng.below(10);
    res.str["repetition"] = std::to_string(kind);
    Step s;
    auto zero_lin_elem = [&](int slot) {
      ElemSpec sp; sp.angle = rng.uniform(0.01, M_PI); sp.lin_lo = sp.lin_hi = 0; sp.neg_hemisphere = rng.chance(0.3);
      double c[32]; gen_elem(vt, rng, sp, c);
      return make_set(ST_SETE, g, slot, c, vt->rep);
    };
    switch (kind) {
      case 0: if (!push(zero_lin_elem(0))) return false; s = make_op(g, OP_M_MULEQ, 0, 0, -1); break;         // X *= X
      case 1: if (!push(zero_lin_elem(0))) return false; s = make_op(g, OP_M_ALIAS, 0, 0, -1); s.op.c = AL_SQUARE; break;
      case 2: s = make_op(g, OP_M_ALIAS, 0, 0, -1); s.op.c = AL_INVERSE; break;                                // X = X.inverse()
      case 3: {  // X += tiny
        TanSpec a; a.angle = std::fabs(rng.logmag(1e-12, 1e-7)); a.lin_lo = 1e-12; a.lin_hi = 1e-9;
        double t[32]; gen_tan(vt, rng, a, t);
        if (!push(make_set(ST_SETT, g, 0, t, vt->dof))) return false;
        s = make_op(g, OP_M_PLUSEQ, 0, 0, -1);
      } break;
      case 4: {  // X += (pi - eps) * axis
        if (!push(zero_lin_elem(0))) return false;
        TanSpec a; a.angle = M_PI - std::fabs(rng.logmag(1e-9, 1e-3)); a.lin_lo = a.lin_hi = 0;
        double t[32]; gen_tan(vt, rng, a, t);
        if (!push(make_set(ST_SETT, g, 0, t, vt->dof))) return false;
        s = make_op(g, OP_M_PLUSEQ, 0, 0, -1);
      } break;
      case 5: {  // X *= Y, Y fixed with small linear part (linear growth stays in range)
        ElemSpec sp; sp.lin_lo = 1e-6; sp.lin_hi = vt->is_float ? 1e-5 : 1e-3;
        double c[32]; gen_elem(vt, rng, sp, c);
        if (!push(make_set(ST_SETE, g, 1, c, vt->rep))) return false;
        if (!push(zero_lin_elem(0))) return false;
        s = make_op(g, OP_M_MULEQ, 0, 1, -1);
      } break;
      case 6: s = make_op(g, OP_INTERP_SLERP + (int)rng.below(3), 0, 1, 0); s.op.s = round_scalar(vt, rng.unit()); s.op.variant = V_ALT; break;
      case 7: if (!cluster(g, 0)) return false; s = make_op(g, OP_AVG_BIINV + (int)rng.below(4), 0, 0, 0); reps = std::min(reps, 20000L); break;
      case 8: s = make_op(g, OP_M_ALIAS, 0, 0, -1); s.op.c = AL_EXP_LOG; break;
      default: s = make_op(g, OP_CASTRT, 0, 0, 0); break;
    }
    s.rep = (int)reps;
    planned_len = 1;
    return push(s);
  }

  void run() {
    vs_rand_mode(1, (o.replay ? o.replay->seed : o.seed) ^ 0xabcdef);
    if (o.replay) {
      plan = *o.replay;
      std::string err;
      if (!ctx.init(plan, err)) { res.fail("harness", "harness", err, -1); res.status = "harness_error"; return; }
      planned_len = (long)plan.steps.size();
      for (size_t i = 0; i < plan.steps.size(); ++i) {
        idx = (long)i;
        hash_step(plan.steps[i]);
        if (!exec_step(plan.steps[i])) break;
      }
      res.num["steps"] = (double)nsteps;
      { char hb[32]; snprintf(hb, sizeof hb, "%016llx", (unsigned long long)hist.h); res.str["hist"] = hb; }
      ctx.destroy();
      return;
    }
    // swarm: groups, kind, length
    plan.check = o.check; plan.seed = o.seed;
    int ng = n_groups();
    int ngr = rng.chance(0.25) ? 2 : 1;
    for (int i = 0; i < ngr; ++i) plan.groups.push_back(group((int)rng.below(ng))->name);
    if (ngr == 2 && rng.chance(0.6)) {   // pair a group with its other-scalar twin: casts then move elements between the two
      std::string n0 = plan.groups[0];
      std::string tw = n0.substr(0, n0.size() - 1) + (n0[n0.size() - 1] == 'd' ? "f" : "d");
      if (group_by_name(tw.c_str())) { plan.groups[1] = tw; plan.set("twins", 1); }
    }
    std::string err;
    if (!ctx.init(plan, err)) { res.status = "harness_error"; res.detail = err; return; }
    int kind = rng.below(100);
    const long walk_len = o.thorough ? 20000 : 2000;
    // repetitions: 1e5 (quick), 1e6 and for a tenth of the repetition runs 1e7 (thorough); C03 evaluates three extra
    // operations per step and repeats less
    const long reps = c03 ? (o.thorough ? 1000000 : 20000) : (o.thorough ? (rng.chance(0.1) ? 10000000 : 1000000) : 100000);
    bool ok = true;
    for (int g = 0; g < ngr && ok; ++g) ok = init_pool(g);
    if (ok) {
      if (kind < 20) {
        res.str["kind"] = "repetition";
        ok = repetition(0, reps);
      } else {
        res.str["kind"] = "walk";
        planned_len = walk_len;
        for (long i = 0; i < walk_len && ok; ++i) {
          int g = (int)rng.below(ngr);
          if (c03 && rng.chance(0.04)) ok = scenario(g);
          else ok = walk_step(g);
        }
      }
    }
    res.num["steps"] = (double)nsteps;
    res.num["plan_steps"] = (double)idx;
    res.num["f.rand_extreme"] = (double)vs_rand_extremes_fired();
    res.num["rand_draws"] = (double)vs_rand_draws();
    { char hb[32]; snprintf(hb, sizeof hb, "%016llx", (unsigned long long)hist.h); res.str["hist"] = hb; }
    res.str["groups"] = plan.groups[0] + (ngr > 1 ? "+" + plan.groups[1] : "");
    {
      std::ostringstream d; d.precision(3);
      for (int i = 0; i < 10; ++i) d << (i ? "," : "") << dec_dev[i];
      res.str["dev_deciles"] = d.str();
    }
    if (o.record) *o.record = plan;
    ctx.destroy();
  }
};

}  // namespace

void run_c08(const RunOpts& o, Result& res) {
  Hist h(o, res);
  h.run();
}

}  // namespace vsim
