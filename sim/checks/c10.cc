#include "checks.h"
namespace vsim {
void run_c10(const RunOpts&, Result& res) { res.status = "harness_error"; res.detail = "not built yet"; }
}
