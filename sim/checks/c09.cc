// C09: optional outputs are transparent; operations are pure and history independent
// (DESIGN 4.2).  One seed = three forked processes of the same pristine parent:
//   A  executes the probes only (each probe is the first library activity ever),
//   B  executes a seeded history with the probes interleaved (each at least twice),
//   C  executes the same steps in reverse order after a different prewarm set.
// The parent compares the probes' digests; B and C additionally run the in-process
// oracles (argument immutability, rand / FP-environment neutrality, output subsets,
// block binding, aliasing, rejected calls leave no trace).
#include "checks.h"
#include "../core/vsched.h"
#include <unistd.h>
#include <sys/wait.h>
#include <fenv.h>
#include <xmmintrin.h>
#include <cmath>
#include <cstring>
#include <sstream>
#include <algorithm>
#include <map>

namespace vsim {
namespace {

enum Role : uint8_t { R_HIST = 0, R_PROBE = 1, R_WARM_B = 2, R_WARM_C = 3 };
enum Fault : uint8_t { F_NONE = 0, F_REJECT = 1 };
const int E_PROT = 3, T_PROT = 2;   // slots [0,E_PROT) / [0,T_PROT) are never written by a history

struct ChildOut {
  std::vector<std::pair<std::string, uint64_t> > digests;   // probe key -> digest (one entry per execution)
  std::vector<long> digest_step;
  Result res;
};

std::string probe_key(const Step& s) {
  std::ostringstream o;
  o << (int)s.group << ":" << s.op.op << ":" << (int)s.op.a << ":" << (int)s.op.b << ":" << (int)s.op.c << ":" << (int)s.op.ka
    << ":" << (int)s.op.kb << ":" << (int)s.op.mask << ":" << (int)s.op.variant << ":" << s.op.s;
  return o.str();
}

uint64_t storage_hash(const GroupCtx& gc, int skip_elem, int skip_tan) {
  Fnv f;
  const GroupVT* vt = gc.vt;
  for (int i = 0; i < vt->NE; ++i) {
    if (i == skip_elem) continue;
    for (int w = 0; w < 2; ++w) f.bytes(vt->elem_addr(gc.st, i, w), vt->scalar_size * vt->rep);
  }
  for (int i = 0; i < vt->NT; ++i) {
    if (i == skip_tan) continue;
    for (int w = 0; w < 2; ++w) f.bytes(vt->tan_addr(gc.st, i, w), vt->scalar_size * vt->dof);
  }
  double p[32];
  for (int i = 0; i < vt->NP; ++i) { vt->get_pt(gc.st, i, p); f.bytes(p, sizeof(double) * vt->dim); }
  return f.h;
}

unsigned fp_control() { return ((unsigned)fegetround() << 16) ^ (_mm_getcsr() & ~0x3Fu); }

struct Runner {
  const Plan& plan;
  Ctx& ctx;
  ChildOut& out;
  Result& res;
  bool full;          // run the in-process oracles (B, C)
  long idx;
  struct RandFirst { uint64_t state[5]; uint64_t digest; };
  std::map<std::string, RandFirst> rand_first;
  Runner(const Plan& p, Ctx& c, ChildOut& o, bool full_) : plan(p), ctx(c), out(o), res(o.res), full(full_), idx(0) {}

  std::string cls(const char* oracle, const GroupVT* vt, int op) {
    return std::string(oracle) + "/" + vt->name + "/" + (op_info(op).name ? op_info(op).name : "?");
  }

  static double maxabs(const double* v, int n) { double m = 0; for (int i = 0; i < n; ++i) if (std::fabs(v[i]) > m) m = std::fabs(v[i]); return m; }

  // all subsets of the optional outputs of one operation
  bool check_masks(const GroupCtx& gc, const Step& s) {
    const OpInfo& inf = op_info(s.op.op);
    const GroupVT* vt = gc.vt;
    const int k = inf.nout;
    if (k == 0) return true;
    const int full_mask = (1 << k) - 1;
    std::vector<Out> o((size_t)full_mask + 1);
    for (int m = 0; m <= full_mask; ++m) {
      OpRec op = s.op; op.mask = (uint8_t)m;
      // vary block binding between the evaluations
      op.variant = (uint8_t)((s.op.variant & ~(V_BLOCK1 | V_BLOCK2)) | ((m * 5 + s.op.a + idx) & (V_BLOCK1 | V_BLOCK2)));
      gc.vt->exec(gc.st, &op, &o[m]);
      res.add("n.mask_evaluations", 1);
      if (o[m].flags & 1) {
        res.fail("output_block", cls("output_block", vt, op.op),
                 std::string(inf.name) + " in " + vt->name + " with output mask " + std::to_string(m) +
                 " changed memory outside the block of the larger matrix an optional output was bound to", idx);
        return false;
      }
    }
    const Out& F = o[full_mask];
    if (F.status == 9) return true;
    const double em = vt->is_float ? 1.1920929e-07 : 2.220446049250313e-16;
    for (int m = 0; m < full_mask; ++m) {
      if (o[m].status != F.status || o[m].digest_v() != F.digest_v()) {
        std::ostringstream d; d.precision(17);
        d << "returned value of " << inf.name << " in " << vt->name << " depends on which optional outputs are requested: mask "
          << m << " vs " << full_mask << " (status " << status_name(o[m].status) << "/" << status_name(F.status) << ")";
        for (int i = 0; i < F.nv && i < o[m].nv; ++i) if (std::memcmp(&o[m].v[i], &F.v[i], 8) != 0) { d << " first diff at coeff " << i << ": " << o[m].v[i] << " vs " << F.v[i]; break; }
        res.fail("value_depends_on_outputs", cls("value_depends_on_outputs", vt, s.op.op), d.str(), idx);
        return false;
      }
      for (int which = 1; which <= 2; ++which) {
        if (!(m & which)) continue;
        const double* a = which == 1 ? o[m].j1 : o[m].j2;
        const double* b = which == 1 ? F.j1 : F.j2;
        const int na = which == 1 ? o[m].n1 : o[m].n2, nb = which == 1 ? F.n1 : F.n2;
        bool bad = na != nb;
        const double tol = 16 * em * std::max(maxabs(a, na), maxabs(b, nb));
        int worst = -1;
        for (int i = 0; i < na && !bad; ++i) {
          if (std::memcmp(&a[i], &b[i], 8) == 0) continue;
          res.add("n.jacobian_not_bit_identical", 1);
          if (!(std::fabs(a[i] - b[i]) <= tol)) { bad = true; worst = i; }
        }
        if (bad) {
          std::ostringstream d; d.precision(17);
          d << "Jacobian " << which << " of " << inf.name << " in " << vt->name << " differs between output subsets " << m << " and "
            << full_mask;
          if (worst >= 0) d << ": entry " << worst << " = " << a[worst] << " vs " << b[worst] << " (tol " << tol << ")";
          res.fail("jacobian_depends_on_outputs", cls("jacobian_depends_on_outputs", vt, s.op.op), d.str(), idx);
          return false;
        }
        res.add("n.jacobian_subset_comparisons", 1);
      }
    }
    return true;
  }

  // X op= Y through the mutating spelling must equal the value-returning computation
  bool check_compound(const GroupCtx& gc, const Step& s, const Out& after) {
    const GroupVT* vt = gc.vt;
    (void)after;
    if (s.op.op == OP_M_ALIAS) {
      if (after.status != 0) return true;
      if (!all_finite(after.v, after.nv) || !all_finite(after.j1, after.n1)) return true;
      if (after.nv != after.n1 || std::memcmp(after.v, after.j1, sizeof(double) * after.nv) != 0) {
        std::ostringstream d; d.precision(17);
        d << "result assigned back onto its operand differs from the unaliased computation (" << vt->name << ", alias form " << (int)(s.op.c % AL__N)
          << ", storage kind " << (int)s.op.ka << ")";
        for (int i = 0; i < after.nv; ++i) if (std::memcmp(&after.v[i], &after.j1[i], 8) != 0) { d << " coeff " << i << ": expected " << after.v[i] << " got " << after.j1[i]; break; }
        res.fail("aliasing", cls("aliasing", vt, s.op.op), d.str(), idx);
        return false;
      }
      res.add("n.alias_checks", 1);
    }
    return true;
  }

  bool exec_one(const Step& s, bool is_probe) {
    const GroupCtx& gc = ctx.g[s.group];
    const GroupVT* vt = gc.vt;
    const OpInfo& inf = op_info(s.op.op);
    int skip_e = -1, skip_t = -1;
    if (inf.cls == C_MUT_E) skip_e = s.op.a;
    if (inf.cls == C_MUT_T) skip_t = s.op.a;
    // value-returning op whose result the plan stores into a slot
    const ValKind vk = op_value_kind(s.op.op);
    const uint64_t h0 = full ? storage_hash(gc, skip_e, skip_t) : 0;
    const unsigned fp0 = fp_control();
    const uint64_t d0 = vs_rand_draws();
    uint64_t st_before[5]; vs_rand_save(st_before);

    // pre-compute the value-returning counterpart of compound assignments (before the operand changes)
    Out expect; expect.status = -1;
    if (full && (s.op.op == OP_M_PLUSEQ || s.op.op == OP_M_MULEQ)) {
      OpRec e = s.op; e.op = (s.op.op == OP_M_PLUSEQ) ? OP_RPLUS : OP_COMPOSE; e.mask = 0; e.variant = 0;
      vt->exec(gc.st, &e, &expect);
    }

    Out o;
    vt->exec(gc.st, &s.op, &o);
    res.add((std::string("op.") + inf.name).c_str(), 1);
    res.add("steps", 1);
    if (o.status == 9) { res.add("n.not_applicable", 1); return true; }
    if (o.flags & 8) {
      res.fail("held_result_changed", cls("held_result_changed", vt, s.op.op),
               std::string("a result of ") + vt->name + " bound to a const reference (rotation(), transform(), inverse(), log(), adj(), hat(), exp(), rjac(), ...) "
               "changed while other objects of the same type were used: the call depends on later calls", idx);
      return false;
    }
    if (o.flags & 4) {
      res.fail("assignment_postcondition", cls("assignment_postcondition", vt, s.op.op),
               std::string(inf.name) + " in " + vt->name + " (storage kinds " + std::to_string((int)s.op.ka) + "," + std::to_string((int)s.op.kb) +
               ") did not leave the source's coefficients in the destination's own storage", idx);
      return false;
    }
    if (s.op.op == OP_HOLD || s.op.op == OP_T_HOLD) res.add("n.held_result_checks", 1);

    if (is_probe) {
      out.digests.push_back(std::make_pair(probe_key(s), o.digest()));
      out.digest_step.push_back(idx);
    }
    if (s.op.fault == F_REJECT) {
      res.add("f.rejected_call", 1);
      if (o.status != (int)s.op.fparam) {
        res.fail("rejected_call", cls("rejected_call", vt, s.op.op),
                 std::string("call that must be refused (") + inf.name + " in " + vt->name + ") returned " + status_name(o.status), idx);
        return false;
      }
    } else if (o.status != 0 && !is_probe) {
      // histories only contain calls on valid operands
      res.add("n.history_exceptions", 1);
    }
    if (!full) return true;

    // argument immutability
    if (storage_hash(gc, skip_e, skip_t) != h0) {
      res.fail("argument_modified", cls("argument_modified", vt, s.op.op),
               std::string(inf.name) + " in " + vt->name + " modified an operand (or another stored element) it takes by const reference", idx);
      return false;
    }
    // no hidden state: FP environment, rand()
    if (fp_control() != fp0) {
      res.fail("fp_environment", cls("fp_environment", vt, s.op.op), std::string(inf.name) + " changed the floating-point control state", idx);
      return false;
    }
    if (!inf.draws_rand && vs_rand_draws() != d0) {
      res.fail("rand_consumed", cls("rand_consumed", vt, s.op.op), std::string(inf.name) + " in " + vt->name + " consumed rand()", idx);
      return false;
    }
    if (inf.draws_rand && o.status == 0) {
      // Random / setRandom depend on the rand() stream only: replaying the stream position of the first
      // such call of this kind, after whatever history happened since, reproduces its result bit for bit
      res.add("n.random_ops", 1);
      const std::string key = std::to_string((int)s.group) + "/" + std::to_string(s.op.op) + "/" + std::to_string((int)s.op.ka);
      auto it = rand_first.find(key);
      if (it == rand_first.end()) {
        RandFirst rf; std::memcpy(rf.state, st_before, sizeof rf.state); rf.digest = o.digest_v();
        rand_first[key] = rf;
      } else {
        uint64_t now[5]; vs_rand_save(now);
        vs_rand_restore(it->second.state);
        Out again; vt->exec(gc.st, &s.op, &again);
        vs_rand_restore(now);
        // put the slot back to what the plan's own call produced
        if (inf.cls == C_MUT_E) vt->set_elem(gc.st, s.op.a, 2, o.v);
        if (inf.cls == C_MUT_T) vt->set_tan(gc.st, s.op.a, 2, o.v);
        res.add("n.random_replays", 1);
        if (again.digest_v() != it->second.digest) {
          res.fail("random_history_dependence", cls("random_history_dependence", vt, s.op.op),
                   std::string(inf.name) + " in " + vt->name + " replayed from the same rand() stream position returned a different element after other library activity", idx);
          return false;
        }
      }
    }
    // compound assignment == value-returning form
    if (expect.status == 0 && o.status == 0 && all_finite(expect.v, expect.nv)) {
      if (expect.nv != o.nv || std::memcmp(expect.v, o.v, sizeof(double) * o.nv) != 0) {
        std::ostringstream d; d.precision(17);
        d << inf.name << " in " << vt->name << " (storage kind " << (int)s.op.ka << ") differs from the value-returning computation";
        for (int i = 0; i < o.nv; ++i) if (std::memcmp(&expect.v[i], &o.v[i], 8) != 0) { d << ": coeff " << i << " expected " << expect.v[i] << " got " << o.v[i]; break; }
        res.fail("aliasing", cls("aliasing", vt, s.op.op), d.str(), idx);
        return false;
      }
      res.add("n.compound_checks", 1);
    }
    if (!check_compound(gc, s, o)) return false;
    // keep view buffers and owning objects in step after a mutation (so both storages stay valid operands)
    if (inf.cls == C_MUT_E) { double c[32]; vt->get_elem(gc.st, s.op.a, s.op.ka == K_MAP ? 1 : 0, c); vt->set_elem(gc.st, s.op.a, 2, c); }
    if (inf.cls == C_MUT_T) { double c[32]; vt->get_tan(gc.st, s.op.a, s.op.ka == K_MAP ? 1 : 0, c); vt->set_tan(gc.st, s.op.a, 2, c); }
    if (inf.cls != C_MUT_E && inf.cls != C_MUT_T && s.dst >= 0 && o.status == 0) {
      if (vk == VK_ELEM && o.nv == vt->rep) vt->set_elem(gc.st, s.dst, 2, o.v);
      if (vk == VK_TAN && o.nv == vt->dof) vt->set_tan(gc.st, s.dst, 2, o.v);
    }
    // output subsets (const operations only; the operands are unchanged by now)
    if (inf.is_const && inf.nout > 0 && s.op.fault == F_NONE) return check_masks(gc, s);
    return true;
  }

  void apply_set(const Step& s) {
    const GroupCtx& gc = ctx.g[s.group];
    switch (s.kind) {
      case ST_SETE: gc.vt->set_elem(gc.st, s.slot, 2, s.vals.data()); break;
      case ST_SETT: gc.vt->set_tan(gc.st, s.slot, 2, s.vals.data()); break;
      case ST_SETP: gc.vt->set_pt(gc.st, s.slot, s.vals.data()); break;
      case ST_SETVEC: { int sl[16]; int n = 0; for (double v : s.vals) if (n < 16) sl[n++] = (int)v; gc.vt->set_vec(gc.st, sl, n, s.slot == 1); } break;
      default: break;
    }
  }

  // role: 'A' probes only, 'B' forward, 'C' reversed
  void run(char role) {
    vs_rand_mode(1, plan.seed ^ 0x5151);
    for (const Step& s : plan.steps) if (s.kind != ST_OP) apply_set(s);
    std::vector<size_t> order;
    for (size_t i = 0; i < plan.steps.size(); ++i) if (plan.steps[i].kind == ST_OP) order.push_back(i);
    if (role == 'A') {
      std::map<std::string, bool> seen;
      for (size_t i : order) {
        const Step& s = plan.steps[i];
        if (s.op.thread != R_PROBE) continue;
        std::string k = probe_key(s);
        if (seen[k]) continue;
        seen[k] = true;
        idx = (long)i;
        if (!exec_one(s, true)) return;
      }
      return;
    }
    const uint8_t warm = role == 'B' ? R_WARM_B : R_WARM_C;
    for (size_t i : order) if (plan.steps[i].op.thread == warm) { idx = (long)i; if (!exec_one(plan.steps[i], false)) return; res.add("f.prewarm", 1); }
    if (role == 'C') std::reverse(order.begin(), order.end());
    for (size_t i : order) {
      const Step& s = plan.steps[i];
      if (s.op.thread != R_PROBE && s.op.thread != R_HIST) continue;
      idx = (long)i;
      // a history step may be repeated many times (what a call counter or a slowly filling cache would need)
      for (int r = 0; r < (s.op.thread == R_HIST ? std::max(1, s.rep) : 1); ++r)
        if (!exec_one(s, s.op.thread == R_PROBE)) return;
      if (s.rep > 1) res.add("f.repeated_step", 1);
    }
  }
};

// ---- generation ------------------------------------------------------------------------------------------
struct Gen {
  Rng rng;
  Plan plan;
  std::vector<const GroupVT*> vts;
  explicit Gen(uint64_t seed) : rng(seed) {}

  bool applicable(const GroupVT* vt, int op) {
    if (op == OP_ROTATION && !(vt->caps & CAP_ROTATION)) return false;
    if (op == OP_TRANSFORM && (vt->caps & CAP_BUNDLE)) return false;
    if ((op == OP_SMALLADJ || op == OP_BRACKET || op == OP_BRACKET_S) && !(vt->caps & CAP_SMALLADJ)) return false;
    if (op == OP_AVG && vt->dof == 1) return false;
    if (op == OP_DECASTELJAU && vt->is_float) return false;
    if (op == OP_M_NORMALIZE && !(vt->caps & CAP_NORMALIZE)) return false;
    if (op == OP_M_SUBVIEW_WRITE && !(vt->caps & (CAP_ASSO3 | CAP_BUNDLE))) return false;
    if (op == OP_TM_STREAM || op == OP_M_ASSIGN_EIGEN || op == OP_TM_ASSIGN_EIGEN) return true;
    return true;
  }

  void fill_params(Step& s, const GroupVT* vt, int ne, int nt) {
    const OpInfo& inf = op_info(s.op.op);
    int op = s.op.op;
    s.op.a = (uint8_t)rng.below((inf.cls == C_TAN || inf.cls == C_MUT_T) ? nt : ne);
    if (inf.cls == C_STATIC && (op == OP_VEE || op == OP_BRACKET_S)) s.op.a = (uint8_t)rng.below(nt);
    if (inf.cls == C_STATIC && op == OP_BRACKET_S) s.op.b = (uint8_t)rng.below(nt);
    switch (inf.arg2) {
      case A_ELEM: s.op.b = (uint8_t)rng.below(ne); break;
      case A_TAN: s.op.b = (uint8_t)rng.below(nt); break;
      case A_PT: s.op.b = (uint8_t)rng.below(vt->NP); break;
      default: break;
    }
    if (op == OP_TM_LOG_INTO) s.op.b = (uint8_t)rng.below(ne);
    s.op.c = (uint8_t)rng.below(nt);
    if (op == OP_GENERATOR || op == OP_T_GENERATOR_M) s.op.c = (uint8_t)rng.below(vt->dof);
    if (op == OP_SMOOTH_PHI) { s.op.c = (uint8_t)(1 + rng.below(4)); s.op.s = rng.unit(); }
    if (op == OP_INTERP_SLERP || op == OP_INTERP_CUBIC || op == OP_INTERP_SMOOTH) { double u = rng.unit(); s.op.s = u < 0.1 ? 0.0 : u < 0.2 ? 1.0 : round_scalar(vt, rng.unit()); }
    if (op == OP_ISAPPROX || op == OP_T_ISAPPROX) s.op.s = vt->eps * (rng.chance(0.5) ? 1 : 1e6);
    if (op == OP_T_SCALE) s.op.s = round_scalar(vt, rng.uniform(-2, 2));
    if (op == OP_TM_MULEQ || op == OP_TM_DIVEQ) s.op.s = round_scalar(vt, rng.uniform(0.5, 1.5));
    if (op == OP_M_ALIAS) s.op.c = (uint8_t)rng.below(AL__N);
    if (op == OP_M_SUBVIEW_WRITE) s.op.c = (uint8_t)rng.below(3);
    if (op == OP_M_COEFFWRITE || op == OP_TM_COEFFWRITE) s.op.variant = (uint8_t)rng.below(3);
    if (op == OP_M_MOVE_ASSIGN && rng.chance(0.5)) s.op.variant |= V_ALT;
    if (op == OP_M_MOVE_ASSIGN || op == OP_TM_MOVE_ASSIGN || op == OP_CTOR) s.op.c = (uint8_t)rng.below(20);
    s.op.ka = (uint8_t)rng.below(3);
    s.op.kb = (uint8_t)rng.below(3);
    if (inf.cls == C_MUT_E || inf.cls == C_MUT_T) s.op.ka = (uint8_t)rng.below(2);
    if (op == OP_BRACKET || op == OP_JT_MUL) { s.op.ka = K_OWN; s.op.kb = K_OWN; }
    if (inf.nout) s.op.mask = (uint8_t)rng.below(1u << inf.nout);
    if (inf.nout && rng.chance(0.3)) s.op.variant |= (uint8_t)rng.below(4);
    if (rng.chance(0.3)) s.op.variant |= V_FRESH;
    if ((op == OP_AVG_BIINV || op == OP_AVG || op == OP_AVG_FL || op == OP_AVG_FR) && rng.chance(0.5)) s.op.variant |= V_SUB;
    if (s.op.op == OP_COEFFS && rng.chance(0.5)) s.op.variant |= V_ALT;
    if (rng.chance(0.2) && (op == OP_INTERP_SLERP || op == OP_INTERP_CUBIC || op == OP_INTERP_SMOOTH || op == OP_T_SCALE ||
                            op == OP_TM_PLUSEQ || op == OP_TM_MINUSEQ)) s.op.variant |= V_ALT;
  }

  Step probe(int g) {
    const GroupVT* vt = vts[g];
    std::vector<int> ops;
    for (int op = 0; op < OP__END; ++op) {
      const OpInfo& inf = op_info(op);
      if (!inf.name || !inf.is_const || inf.draws_rand || !applicable(vt, op)) continue;
      ops.push_back(op);
    }
    Step s = make_op(g, ops[rng.below((uint32_t)ops.size())], 0, 0, -1);
    s.op.thread = R_PROBE;
    fill_params(s, vt, E_PROT, T_PROT);
    if (op_info(s.op.op).arg2 == A_PT) s.op.b = 0;
    // interpolation reads the tangent slots c and c+1: both must be protected
    if (s.op.op == OP_INTERP_SLERP || s.op.op == OP_INTERP_CUBIC || s.op.op == OP_INTERP_SMOOTH) s.op.c = 0;
    return s;
  }

  Step hist(int g, int& squarings) {
    const GroupVT* vt = vts[g];
    for (;;) {
      int op = (int)rng.below(OP__END);
      const OpInfo& inf = op_info(op);
      if (!inf.name || !applicable(vt, op)) continue;
      if ((op == OP_M_MULEQ || op == OP_M_ALIAS) && ++squarings > 6) continue;
      Step s = make_op(g, op, 0, 0, -1);
      s.op.thread = R_HIST;
      fill_params(s, vt, 6, 4);
      // destinations never touch the protected slots
      if (inf.cls == C_MUT_E) s.op.a = (uint8_t)(E_PROT + rng.below(6 - E_PROT));
      if (inf.cls == C_MUT_T) s.op.a = (uint8_t)(T_PROT + rng.below(4 - T_PROT));
      if (op == OP_M_SUBVIEW_WRITE || op == OP_M_COEFFWRITE || op == OP_M_ASSIGN || op == OP_M_ASSIGN_EIGEN || op == OP_M_MOVE_ASSIGN) { /* b any */ }
      ValKind vk = op_value_kind(op);
      if (inf.cls != C_MUT_E && inf.cls != C_MUT_T && rng.chance(0.5)) {
        if (vk == VK_ELEM) s.dst = E_PROT + (int)rng.below(6 - E_PROT);
        if (vk == VK_TAN) s.dst = T_PROT + (int)rng.below(4 - T_PROT);
      }
      return s;
    }
  }

  Step rejected(int g) {
    const GroupVT* vt = vts[g];
    Step s = make_op(g, OP_GENERATOR, 0, 0, -1);
    s.op.thread = R_HIST; s.op.fault = F_REJECT;
    switch (rng.below(5)) {
      case 0: s.op.op = OP_GENERATOR; s.op.c = (uint8_t)(signed char)(rng.chance(0.5) ? -1 : vt->dof); s.op.fparam = 1; break;
      case 1: s.op.op = OP_INTERP_SLERP + (uint16_t)rng.below(3); s.op.a = 0; s.op.b = 1; s.op.s = rng.chance(0.5) ? -0.5 : 1.25; s.op.fparam = 2; break;
      case 2: s.op.op = OP_SMOOTH_PHI; s.op.c = rng.chance(0.5) ? 0 : 5; s.op.s = 0.5; s.op.fparam = 3; break;
      case 3: s.op.op = (uint16_t)(OP_AVG_BIINV + rng.below(4)); s.op.variant = V_ALT; s.op.fparam = 2; break;
      default: s.op.op = OP_DECASTELJAU; s.op.variant = V_ALT; s.op.fparam = 2; break;
    }
    return s;
  }

  void generate(uint64_t seed, bool thorough) {
    plan.check = "C09"; plan.seed = seed;
    int ngr = rng.chance(0.25) ? 2 : 1;
    for (int i = 0; i < ngr; ++i) { const GroupVT* vt = group((int)rng.below(n_groups())); plan.groups.push_back(vt->name); vts.push_back(vt); }
    // half of the two-group runs pair a group with its other-scalar twin (SO3f + SO3d, ...) holding the SAME
    // (float-exact) coefficient values: what state shared across scalar types would need
    bool twins = false;
    if (ngr == 2 && rng.chance(0.5)) {
      std::string n0 = vts[0]->name;
      std::string tw = n0.substr(0, n0.size() - 1) + (n0[n0.size() - 1] == 'd' ? "f" : "d");
      const GroupVT* t = group_by_name(tw.c_str());
      if (t) { vts[1] = t; plan.groups[1] = t->name; twins = true; if (vts[0]->is_float == 0) { std::swap(vts[0], vts[1]); std::swap(plan.groups[0], plan.groups[1]); } }
    }
    std::vector<Step> first_pool;
    for (int g = 0; g < ngr; ++g) {
      const GroupVT* vt = vts[g];
      if (twins && g == 1) {
        // group 0 is the float twin: tangents and points are copied (float-exact values are valid for both scalars,
        // so angles are bit-identical across the two types); elements are NOT: a quaternion that is unit-norm
        // to float precision is not a valid double element
        for (Step s : first_pool) {
          s.group = 1; s.op.group = 1;
          if (s.kind == ST_SETE) {
            ElemSpec sp; sp.neg_hemisphere = rng.chance(0.3); sp.lin_lo = 1e-2; sp.lin_hi = 10;
            spice_elem_spec(vt, rng, sp);
            if (s.slot == 5) sp.angle = rng.chance(0.5) ? 0.0 : std::fabs(rng.logmag(1e-12, 1e-8));
            double c[32]; gen_elem(vt, rng, sp, c);
            s.vals.assign(c, c + vt->rep);
          }
          plan.steps.push_back(s);
        }
        continue;
      }
      const size_t pool_begin = plan.steps.size();
      for (int i = 0; i < vt->NE; ++i) {
        ElemSpec sp; sp.neg_hemisphere = rng.chance(0.3); sp.lin_lo = 1e-2; sp.lin_hi = 10;
        if (rng.chance(0.25)) sp.angle = rng.chance(0.3) ? 0.0 : std::fabs(rng.logmag(1e-10, 1e-5));
        spice_elem_spec(vt, rng, sp);
        if (i == 5) sp.angle = rng.chance(0.5) ? 0.0 : std::fabs(rng.logmag(1e-12, 1e-8));   // identity-like element for the sandwiches
        double c[32]; gen_elem(vt, rng, sp, c);
        plan.steps.push_back(make_set(ST_SETE, g, i, c, vt->rep));
      }
      for (int i = 0; i < vt->NT; ++i) {
        TanSpec sp; sp.angle = rng.chance(0.25) ? std::fabs(rng.logmag(1e-10, 1e-6)) : rng.uniform(0.01, 3); sp.lin_lo = 1e-2; sp.lin_hi = 5;
        if (i == 3) { sp.angle = rng.chance(0.5) ? 0.0 : std::fabs(rng.logmag(1e-12, 1e-8)); }            // tiny tangent for the sandwiches
        double t[32]; gen_tan(vt, rng, sp, t);
        if (i != 3 && rng.chance(0.3)) {
          // rotation about one coordinate axis by a dyadic angle: the angle has the same bits whether the norm is
          // taken in float or in double (what a memo keyed on the angle and shared between scalar types would need)
          for (int k = 0; k < vt->n_ang; ++k) {
            const double ang = (1 + (int)rng.below(40)) / 16.0;
            const int ax = vt->ang[k].len == 3 ? (int)rng.below(3) : 0;
            for (int q = 0; q < vt->ang[k].len; ++q) t[vt->ang[k].off + q] = (q == ax) ? ang : 0.0;
          }
        }
        plan.steps.push_back(make_set(ST_SETT, g, i, t, vt->dof));
      }
      for (int i = 0; i < vt->NP; ++i) { double p[32]; gen_pt(vt, rng, 1e-2, 10, p); plan.steps.push_back(make_set(ST_SETP, g, i, p, vt->dim)); }
      Step v; v.kind = ST_SETVEC; v.group = (uint8_t)g; int n = 2 + rng.below(3); for (int i = 0; i < n; ++i) v.vals.push_back(i);
      plan.steps.push_back(v);
      // element 2 (protected, like element 0) := a close neighbour of element 0 (tiny relative rotation, O(1) relative translation)
      {
        double nb[32];
        perturb_elem(vt, rng, plan.steps[pool_begin].vals.data(), rng.chance(0.5) ? std::fabs(rng.logmag(1e-10, 1e-7)) : std::fabs(rng.logmag(1e-7, 1e-3)), 1.0, nb);
        plan.steps.push_back(make_set(ST_SETE, g, 2, nb, vt->rep));
      }
      if (g == 0) first_pool.assign(plan.steps.begin() + pool_begin, plan.steps.end());
    }
    // probes
    std::vector<Step> probes;
    int np = 4 + (int)rng.below(thorough ? 16 : 9);
    for (int i = 0; i < np; ++i) probes.push_back(probe((int)rng.below(ngr)));
    // prewarm sets
    for (int r = 0; r < 2; ++r) {
      int k = (int)rng.below(5);
      for (int i = 0; i < k; ++i) {
        int g = (int)rng.below(ngr);
        static const int warm_ops[] = {OP_IDENTITY, OP_ZERO, OP_GENERATOR, OP_INNERWEIGHTS, OP_ADJ, OP_RJAC, OP_INNER, OP_EQ};
        Step s = make_op(g, warm_ops[rng.below(8)], 0, 0, -1);
        fill_params(s, vts[g], 6, 4);
        s.op.thread = r == 0 ? R_WARM_B : R_WARM_C;
        s.op.mask = 0; s.op.variant = 0;
        plan.steps.push_back(s);
      }
    }
    // "first call of the process has other arguments": for half of the probes the same operation is executed once,
    // with other operands / another container size, before anything else in process B or C (what a function-local
    // static initialised from the first call's arguments would need)
    for (const Step& p : probes) {
      if (!rng.chance(0.5)) continue;
      Step wst = p;
      const OpInfo& inf = op_info(p.op.op);
      const GroupVT* vt = vts[p.group];
      wst.op.thread = rng.chance(0.5) ? R_WARM_B : R_WARM_C;
      if (inf.cls == C_ALG && (p.op.op == OP_AVG_BIINV || p.op.op == OP_AVG || p.op.op == OP_AVG_FL || p.op.op == OP_AVG_FR)) {
        wst.op.variant ^= V_SUB; wst.op.c = (uint8_t)rng.below(4);
      } else {
        wst.op.a = (uint8_t)rng.below((inf.cls == C_TAN || (inf.cls == C_STATIC && (p.op.op == OP_VEE || p.op.op == OP_BRACKET_S))) ? 4 : 6);
        if (inf.arg2 == A_ELEM) wst.op.b = (uint8_t)rng.below(6);
        if (inf.arg2 == A_TAN) wst.op.b = (uint8_t)rng.below(4);
        if (inf.arg2 == A_PT) wst.op.b = (uint8_t)rng.below(vt->NP);
        if (p.op.op == OP_GENERATOR || p.op.op == OP_T_GENERATOR_M) wst.op.c = (uint8_t)rng.below(vt->dof);
      }
      plan.steps.push_back(wst);
    }
    // history with probes interleaved, each probe at least twice
    int hl = (int)rng.below(thorough ? 120 : 61);
    std::vector<Step> seq;
    int squarings = 0;
    for (int i = 0; i < hl; ++i) {
      int g = (int)rng.below(ngr);
      if (rng.chance(0.3) && !probes.empty()) {
        // the same operation as one of the probes, with the same requested outputs, on other operands:
        // what a cache keyed on "last argument" or a scratch variable shared between calls would need
        Step s = probes[rng.below((uint32_t)probes.size())];
        const OpInfo& inf = op_info(s.op.op);
        const GroupVT* vt = vts[s.group];
        s.op.thread = R_HIST;
        s.op.a = (uint8_t)rng.below((inf.cls == C_TAN) ? 4 : 6);
        if (inf.cls == C_STATIC && (s.op.op == OP_VEE || s.op.op == OP_BRACKET_S)) s.op.a = (uint8_t)rng.below(4);
        if (inf.arg2 == A_ELEM) s.op.b = (uint8_t)rng.below(6);
        if (inf.arg2 == A_TAN || s.op.op == OP_BRACKET_S) s.op.b = (uint8_t)rng.below(4);
        if (inf.arg2 == A_PT) s.op.b = (uint8_t)rng.below(vt->NP);
        if (s.op.op == OP_GENERATOR || s.op.op == OP_T_GENERATOR_M) s.op.c = (uint8_t)rng.below(vt->dof);
        seq.push_back(s);
        continue;
      }
      seq.push_back(rng.chance(0.08) ? rejected(g) : hist(g, squarings));
    }
    for (int rep = 0; rep < 2; ++rep)
      for (const Step& p : probes) {
        size_t pos = seq.empty() ? 0 : rng.below((uint32_t)seq.size() + 1);
        seq.insert(seq.begin() + pos, p);
      }
    // sandwiches: probe, the same call on an identity-like / tiny operand (a different branch of the same
    // code, same requested outputs, same storage kind), probe again
    for (const Step& p : probes) {
      if (!rng.chance(0.5)) continue;
      const OpInfo& inf = op_info(p.op.op);
      Step mid = p; mid.op.thread = R_HIST;
      if (twins && rng.chance(0.6)) {
        // the very same call on the other-scalar twin (same slots, hence bit-identical angles and coefficients)
        mid.group = (uint8_t)(1 - p.group); mid.op.group = mid.group;
      } else {
        if (inf.cls == C_ELEM) mid.op.a = 5; else if (inf.cls == C_TAN) mid.op.a = 3; else continue;
        if (rng.chance(0.3)) { if (inf.arg2 == A_ELEM) mid.op.b = 5; if (inf.arg2 == A_TAN) mid.op.b = 3; }
      }
      size_t pos = seq.empty() ? 0 : rng.below((uint32_t)seq.size() + 1);
      Step trio[3] = {p, mid, p};
      seq.insert(seq.begin() + pos, trio, trio + 3);
    }
    // one const history step repeated hundreds to thousands of times
    if (rng.chance(0.25) && !seq.empty()) {
      for (int tries = 0; tries < 8; ++tries) {
        Step& s = seq[rng.below((uint32_t)seq.size())];
        const OpInfo& inf = op_info(s.op.op);
        if (s.op.thread != R_HIST || !inf.is_const || s.op.fault != F_NONE || inf.cls == C_ALG) continue;
        s.rep = 100 + (int)rng.below(thorough ? 20000 : 3000);
        s.dst = -1;
        break;
      }
    }
    for (const Step& s : seq) plan.steps.push_back(s);
    plan.set("hist_len", hl);
  }
};

// ---- child <-> parent -------------------------------------------------------------------------------------------
void send_child(int fd, const ChildOut& co) {
  std::ostringstream o;
  for (size_t i = 0; i < co.digests.size(); ++i) o << "D\t" << co.digest_step[i] << "\t" << co.digests[i].second << "\t" << co.digests[i].first << "\n";
  for (auto& kv : co.res.num) o << "N\t" << kv.first << "\t" << kv.second << "\n";
  for (auto& kv : co.res.str) o << "S\t" << kv.first << "\t" << kv.second << "\n";
  if (co.res.failed()) {
    std::string d = co.res.detail; for (char& c : d) if (c == '\n' || c == '\t') c = ' ';
    o << "F\t" << co.res.oracle << "\t" << co.res.cls << "\t" << co.res.step_index << "\t" << d << "\n";
  }
  o << "E\n";
  std::string s = o.str();
  size_t off = 0;
  while (off < s.size()) { ssize_t k = write(fd, s.data() + off, s.size() - off); if (k <= 0) break; off += (size_t)k; }
}

bool recv_child(int fd, ChildOut& co) {
  std::string all; char buf[65536]; ssize_t k;
  while ((k = read(fd, buf, sizeof buf)) > 0) all.append(buf, (size_t)k);
  std::istringstream is(all);
  std::string line; bool ended = false;
  while (std::getline(is, line)) {
    if (line == "E") { ended = true; break; }
    std::vector<std::string> f; size_t p = 0;
    for (;;) { size_t q = line.find('\t', p); if (q == std::string::npos) { f.push_back(line.substr(p)); break; } f.push_back(line.substr(p, q - p)); p = q + 1; }
    if (f[0] == "D" && f.size() >= 4) { co.digest_step.push_back(std::strtol(f[1].c_str(), nullptr, 10)); co.digests.push_back(std::make_pair(f[3], std::strtoull(f[2].c_str(), nullptr, 10))); }
    else if (f[0] == "N" && f.size() >= 3) co.res.num[f[1]] = std::strtod(f[2].c_str(), nullptr);
    else if (f[0] == "S" && f.size() >= 3) co.res.str[f[1]] = f[2];
    else if (f[0] == "F" && f.size() >= 5) co.res.fail(f[1].c_str(), f[2], f[4], std::strtol(f[3].c_str(), nullptr, 10));
  }
  return ended;
}

}  // namespace

void run_c09(const RunOpts& o, Result& res) {
  vs_statics_init();
  Plan plan;
  if (o.replay) plan = *o.replay;
  else { Gen g(o.seed); g.generate(o.seed, o.thorough); plan = g.plan; }
  if (o.record) *o.record = plan;
  if (o.dry) { res.str["dry"] = "1"; return; }

  ChildOut co[3];
  const char roles[3] = {'A', 'B', 'C'};
  for (int r = 0; r < 3; ++r) {
    int pfd[2];
    if (pipe(pfd) != 0) { res.status = "harness_error"; res.detail = "pipe"; return; }
    fflush(stdout); fflush(stderr);
    pid_t pid = fork();
    if (pid == 0) {
      close(pfd[0]);
      Ctx ctx; std::string err;
      ChildOut mine;
      if (!ctx.init(plan, err)) { mine.res.status = "harness_error"; mine.res.detail = err; send_child(pfd[1], mine); _exit(2); }
      Runner run(plan, ctx, mine, r != 0);
      run.run(roles[r]);
      {
        char hb[32]; snprintf(hb, sizeof hb, "%016llx", (unsigned long long)vs_first_use_hash());
        mine.res.str[std::string("fuhash_") + roles[r]] = hb;
        int ms = vs_statics_check();
        if (ms >= 0) { mine.res.add("d.static_mutated", 1); mine.res.str["d.static_mutated_name"] = vs_static_name(ms); }
        mine.res.num[std::string("statics_initialised_") + roles[r]] = vs_statics_initialised();
      }
      send_child(pfd[1], mine);
      _exit(0);
    }
    close(pfd[1]);
    bool ok = recv_child(pfd[0], co[r]);
    close(pfd[0]);
    int wst = 0; waitpid(pid, &wst, 0);
    if (!ok || !WIFEXITED(wst) || WEXITSTATUS(wst) != 0) {
      // a crashed / sanitizer-killed child: let the driver classify stderr; report as harness error otherwise
      res.status = "harness_error";
      res.detail = std::string("process ") + roles[r] + " ended abnormally (wait status " + std::to_string(wst) + ")";
      res.str["role"] = std::string(1, roles[r]);
      return;
    }
  }
  // merge counters
  for (int r = 0; r < 3; ++r) {
    for (auto& kv : co[r].res.num) res.num[kv.first] += kv.second;
    for (auto& kv : co[r].res.str) res.str[kv.first] = kv.second;
  }
  res.num["hist_len"] = (double)plan.cfg_int("hist_len", 0);
  res.num["processes"] = 3;
  {
    Fnv f;
    for (const Step& s : plan.steps) if (s.kind == ST_OP) { f.i32(s.op.op); f.i32(s.op.a); f.i32(s.op.b); f.i32(s.op.thread); f.i32(s.group); }
    char hb[32]; snprintf(hb, sizeof hb, "%016llx", (unsigned long long)f.h); res.str["hist"] = hb;
    res.str["fuhash"] = res.str["fuhash_B"] + res.str["fuhash_C"];
    std::string gs; for (size_t i = 0; i < plan.groups.size(); ++i) gs += (i ? "+" : "") + plan.groups[i];
    res.str["groups"] = gs;
  }
  // in-process violations of B / C
  for (int r = 1; r < 3 && !res.failed(); ++r)
    if (co[r].res.failed()) { res.fail(co[r].res.oracle.c_str(), co[r].res.cls, std::string("[process ") + roles[r] + "] " + co[r].res.detail, co[r].res.step_index); }
  if (res.failed()) return;
  // history independence: every execution of a probe has the digest of the pristine process
  std::map<std::string, uint64_t> ref;
  for (auto& d : co[0].digests) ref[d.first] = d.second;
  long compared = 0;
  for (int r = 1; r < 3 && !res.failed(); ++r)
    for (size_t i = 0; i < co[r].digests.size(); ++i) {
      auto it = ref.find(co[r].digests[i].first);
      if (it == ref.end()) continue;
      ++compared;
      if (it->second != co[r].digests[i].second) {
        long st = co[r].digest_step[i];
        const Step& s = plan.steps[(size_t)st];
        const GroupVT* vt = group_by_name(plan.groups[s.group].c_str());
        std::ostringstream d;
        d << "probe " << op_info(s.op.op).name << " on " << (vt ? vt->name : "?") << " (plan step " << st << ") returned a different result in process "
          << roles[r] << " (after other library activity) than as the first library call of a fresh process";
        res.fail("history_dependence", std::string("history_dependence/") + (vt ? vt->name : "?") + "/" + op_info(s.op.op).name, d.str(), st);
        break;
      }
    }
  res.num["n.probe_comparisons"] = (double)compared;
}

}  // namespace vsim
