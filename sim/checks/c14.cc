#include "checks.h"
namespace vsim {
void run_c14(const RunOpts&, Result& res) { res.status = "harness_error"; res.detail = "not built yet"; }
}
