// Type-erased operation vocabulary shared by all checks (DESIGN A.5).
// This header must not include manif: generic check code compiles without it.
#ifndef VSIM_OPTYPES_H
#define VSIM_OPTYPES_H
#include <cstdint>
#include <cstddef>

namespace vsim {

enum Kind : uint8_t { K_OWN = 0, K_MAP = 1, K_CMAP = 2 };

enum OpCode : uint16_t {
  // element -> ...
  OP_INVERSE = 0, OP_LOG, OP_COMPOSE, OP_BETWEEN, OP_RPLUS, OP_LPLUS, OP_PLUS,
  OP_RMINUS, OP_LMINUS, OP_MINUS, OP_ACT, OP_ADJ, OP_MUL, OP_ADD, OP_SUB,
  OP_ISAPPROX, OP_EQ, OP_TRANSFORM, OP_ROTATION, OP_CASTRT, OP_COEFFS, OP_LIFT, OP_DATAPTR, OP_ACCESSORS, OP_CONSTRUCT, OP_STREAM,
  OP_HOLD,      // results bound to const references stay valid and unchanged while other objects are used
  // tangent -> ...
  OP_EXP = 30, OP_HAT, OP_RJAC, OP_LJAC, OP_RJACINV, OP_LJACINV, OP_SMALLADJ,
  OP_INNER, OP_WNORM, OP_SQWNORM, OP_BRACKET, OP_TPLUS, OP_TMINUS,
  OP_T_RPLUS_X, OP_T_LPLUS_X, OP_T_PLUS_X, OP_T_ADD_X, OP_T_ISAPPROX, OP_T_NEG, OP_T_SCALE,
  OP_T_ADD_T, OP_T_SUB_T, OP_T_GENERATOR_M, OP_T_INNERW_M, OP_RETRACT, OP_T_CASTRT, OP_JT_MUL, OP_T_ACCESSORS, OP_T_STREAM,
  OP_T_HOLD,
  // static helpers
  OP_IDENTITY = 60, OP_ZERO, OP_GENERATOR, OP_INNERWEIGHTS, OP_VEE, OP_BRACKET_S, OP_RANDOM, OP_T_RANDOM,
  // algorithms
  OP_INTERP_SLERP = 70, OP_INTERP_CUBIC, OP_INTERP_SMOOTH, OP_AVG_BIINV, OP_AVG, OP_AVG_FL, OP_AVG_FR,
  OP_DECASTELJAU, OP_SMOOTH_PHI,
  // more tangent -> ... (the 30..59 range is full)
  OP_T_DATAPTR, OP_T_CONSTRUCT,
  OP_CTOR,      // owning element rebuilt from the parts of a (component constructors)
  // element mutators (dst = a)
  OP_M_ASSIGN = 90, OP_M_SETIDENTITY, OP_M_SETRANDOM, OP_M_PLUSEQ, OP_M_MULEQ, OP_M_NORMALIZE,
  OP_M_COEFFWRITE, OP_M_ALIAS, OP_M_ASSIGN_EIGEN, OP_M_MOVE_ASSIGN, OP_M_SUBVIEW_WRITE, OP_M_SETTERS,
  // tangent mutators (dst = a)
  OP_TM_ASSIGN = 110, OP_TM_SETZERO, OP_TM_SETRANDOM, OP_TM_PLUSEQ, OP_TM_MINUSEQ, OP_TM_MULEQ,
  OP_TM_DIVEQ, OP_TM_STREAM, OP_TM_LOG_INTO, OP_TM_ASSIGN_EIGEN, OP_TM_COEFFWRITE, OP_TM_SETVEE, OP_TM_BLOCKSET,
  OP_TM_MOVE_ASSIGN,
  OP__END = 130
};

enum OpClass : uint8_t { C_ELEM, C_TAN, C_STATIC, C_ALG, C_MUT_E, C_MUT_T, C_NONE };
enum Arg2 : uint8_t { A_NONE, A_ELEM, A_TAN, A_PT, A_IDX, A_SCALAR };

struct OpInfo {
  const char* name;
  OpClass cls;
  Arg2 arg2;
  uint8_t nout;      // number of optional outputs
  bool is_const;     // non-mutating, usable on shared objects (C14)
  bool draws_rand;
  bool touches_static;  // uses a lazily initialised constant somewhere
};

const OpInfo& op_info(int op);     // name==nullptr for holes
int op_by_name(const char* name);  // -1 if unknown

// variant bits (meaning depends on op)
enum : uint8_t {
  V_BLOCK1 = 1,   // bind output 1 to a block of a larger matrix
  V_BLOCK2 = 2,   // bind output 2 to a block of a larger matrix
  V_ALT = 4,      // alternative spelling of the same operation (alias / operator form)
  V_SUB = 8,      // reach through internal sub-view (asSO3 / element<i>) where available
  V_FRESH = 16    // bind view operands to temporary Map objects instead of the state's persistent views
};

// alias sub-operations for OP_M_ALIAS (in OpRec::c)
enum : uint8_t { AL_SQUARE = 0, AL_INVERSE, AL_BETWEEN_SELF, AL_COMPOSE_INV, AL_PLUS_LOG, AL_EXP_LOG, AL__N };

struct OpRec {
  uint16_t op;
  uint8_t thread;
  uint8_t group;
  uint8_t a, b, c;     // operand slots / index argument
  uint8_t ka, kb;      // storage kinds of operands a and b
  uint8_t mask;        // requested optional outputs
  uint8_t variant;
  uint8_t fault;       // fault annotation kind (check specific)
  uint16_t fparam;     // fault parameter
  double s;            // scalar argument
};

const int MAXV = 420;  // >= 20*20

struct Out {
  int status;   // 0 ok, 1 manif::invalid_argument, 2 manif::runtime_error, 3 std::logic_error,
                // 4 other std::exception, 5 unknown exception, 9 op not applicable to this group
  int flags;    // bit0: memory outside a bound output block changed; bit1: element-wise read access disagrees with coeffs()
                // bit2: an assignment did not leave the source's coefficients in the destination's own storage
                // bit3: a result bound to a const reference changed while other objects were used
  int nv, n1, n2;
  double v[MAXV], j1[MAXV], j2[MAXV];
  uint64_t digest() const;
  uint64_t digest_v() const;
  uint64_t digest_j(int which) const;
};

struct Block { int off, len; };

struct GroupVT {
  const char* name;
  int rep, dof, dim, algdim;
  int is_float;
  double eps;
  int n_unit; Block unit[4];   // unit-norm blocks of the coefficient vector
  int n_ang; Block ang[4];     // rotation-vector blocks of the tangent vector
  int n_lin; Block lin[6];     // remaining ("translation-like") blocks of the coefficient vector
  int NE, NT, NP;
  unsigned caps;               // capability bits
  size_t scalar_size;
  // state: owning objects + view buffers.  Buffers are supplied by the caller
  // (ebufs[NE], tbufs[NT], each >= rep / dof scalars) or allocated when null.
  void* (*state_new)(void** ebufs, void** tbufs);
  void (*state_free)(void* st);
  // raw access, bypasses every library check; which: 0 owning object, 1 view buffer, 2 both
  void (*set_elem)(void* st, int slot, int which, const double* c);
  void (*get_elem)(void* st, int slot, int which, double* c);
  void (*set_tan)(void* st, int slot, int which, const double* c);
  void (*get_tan)(void* st, int slot, int which, double* c);
  void (*set_pt)(void* st, int slot, const double* c);
  void (*get_pt)(void* st, int slot, double* c);
  void (*set_vec)(void* st, const int* slots, int n, int append);   // shared container := / += copies of element slots
  const void* (*elem_addr)(void* st, int slot, int which);
  const void* (*tan_addr)(void* st, int slot, int which);
  void (*exec)(void* st, const OpRec* op, Out* out);
};

enum : unsigned {
  CAP_NORMALIZE = 1, CAP_ROTATION = 2, CAP_SMALLADJ = 4, CAP_ASSO3 = 8, CAP_BUNDLE = 16, CAP_RN = 32,
  CAP_QUAT = 64,
  CAP_CROSS = 128   // position mixes products of two translation-like quantities (SGal3: velocity x time)
};

int n_groups();
const GroupVT* group(int i);
const GroupVT* group_by_name(const char* n);
void register_group(const GroupVT* vt);

// canary written into output storage before a call
inline double canary() { return 1.2345678e33; }

}  // namespace vsim
#endif
