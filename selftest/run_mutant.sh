#!/bin/sh
# usage: run_mutant.sh <patch.diff> <Cxx> [groups] [runs]
# Applies a change to /repo, runs the quick check for the property in a separate build
# directory (optionally restricted to a few groups to keep the rebuild short), and undoes
# the change straight afterwards.  Exit code = exit code of the check (1 = detected).
set -u
PATCH="$(realpath "$1")"; PROP="$2"; GROUPS="${3:-}"; RUNS="${4:-}"
VERIF="$(cd "$(dirname "$0")/.." && pwd)"
BDIR="/tmp/vsim_mut_$$"
if [ -n "${MUT_WORKTREE:-}" ]; then
  # concurrency-safe variant: the change is applied to a scratch worktree of /repo's HEAD, not to /repo itself
  WT="/tmp/vsim_mutwt_$$"
  git -C /repo worktree add -q --detach "$WT" HEAD || exit 3
  git -C "$WT" apply "$PATCH" || { echo "patch does not apply"; git -C /repo worktree remove --force "$WT"; exit 3; }
  export MANIF_REPO="$WT"
else
  if ! git -C /repo diff --quiet; then echo "refusing: /repo has uncommitted changes"; exit 3; fi
  git -C /repo apply "$PATCH" || { echo "patch does not apply"; exit 3; }
fi
export VERIF_BUILD_DIR="$BDIR"
[ -n "$GROUPS" ] && export VS_GROUPS="$GROUPS"
[ -n "$RUNS" ] && export VERIF_RUNS="$RUNS"
export VERIF_NO_EVIDENCE=1
# PROP may be a comma separated list: the checks then share one scratch build
RC=0
for P in $(echo "$PROP" | tr ',' ' '); do
  "$VERIF/bin/check" "$P" quick
  R=$?
  echo "=== $P exit=$R"
  [ $R -ne 0 ] && RC=$R
done
if [ -n "${MUT_WORKTREE:-}" ]; then git -C /repo worktree remove --force "$WT"; else git -C /repo checkout -- .; fi
rm -rf "$BDIR"
exit $RC
