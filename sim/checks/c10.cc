// C10: views over external memory behave exactly like owning objects (DESIGN 4.3).
// Simulated storage: a harness-owned arena with a seeded layout of view slots (every
// alignment class, odd scalar offsets, gaps of 0/1/3 canary scalars, directly adjacent
// slots).  Every operation of a seeded history is executed twice: on a reference model
// made of owning objects only, and through the planned mix of owning / Map / Map<const>
// operands bound to the arena.  Fault: a neighbour writer that owns the gaps and the
// slots an operation is not entitled to touch — as a second simulated thread under the
// seeded scheduler in the race-detector flavour (any access outside a view is then an
// unsynchronised conflict), or by scrambling the gaps in the other flavours.
#include "checks.h"
#include "../core/vsched.h"
#include <pthread.h>
#include <unistd.h>
#include <cmath>
#include <cstring>
#include <cstdlib>
#include <sstream>
#include <algorithm>
#include <set>

namespace vsim {
namespace {

enum Fault : uint8_t { F_NONE = 0, F_REJECT = 1 };

struct SlotLay { long off; long bytes; int align_class; };   // byte offset into the arena

struct Arena {
  unsigned char* base;      // 64-byte aligned
  unsigned char* raw;
  long size;
  unsigned char* ref;       // what every byte outside a busy slot must contain (canaries + current slot contents)
  unsigned char* snap;      // copy taken before a step
  std::vector<SlotLay> eslot, tslot;
  std::vector<void*> heap;  // exact-size blocks (asan flavour)
  std::vector<char> nb_owned;  // per byte: 1 = belongs to the neighbour writer for the whole run (gaps + slots no operation uses)
  Arena() : base(nullptr), raw(nullptr), size(0), ref(nullptr), snap(nullptr) {}
};

bool is_asan() { return std::strcmp(flavour_name(), "asan") == 0; }
bool is_tsan() { return std::strcmp(flavour_name(), "tsan") == 0; }

struct Sim {
  const RunOpts& o;
  Result& res;
  Plan plan;
  const GroupVT* vt;
  void* V;          // views over the arena (+ its own owning objects)
  void* M;          // reference model: owning objects only
  Arena ar;
  Rng rng;
  long idx;
  std::set<std::string> combos;
  bool threaded;
  Sim(const RunOpts& o_, Result& r_) : o(o_), res(r_), vt(nullptr), V(nullptr), M(nullptr), rng(o_.seed), idx(0), threaded(false) {}

  std::string cls(const char* oracle, int op) { return std::string(oracle) + "/" + vt->name + "/" + (op_info(op).name ? op_info(op).name : "?"); }

  // ---- layout --------------------------------------------------------------------------------------
  void build_layout() {
    const long ss = (long)vt->scalar_size;
    long cur = 64;   // leading guard zone
    auto place = [&](int i, bool elem) {
      std::string key = std::string(elem ? "lay_e" : "lay_t") + std::to_string(i);
      long code = plan.cfg_int(key.c_str(), 0);   // align class * 100 + pre-offset scalars * 10 + gap scalars
      int ac = (int)(code / 100), pre = (int)((code / 10) % 10), gap = (int)(code % 10);
      static const long aligns[] = {64, 32, 16, 8, 4, 1};
      long al = aligns[ac % 6];
      if (al < ss) al = ss;
      if (al > 1) cur = (cur + al - 1) / al * al;
      cur += pre * ss;
      SlotLay sl; sl.off = cur; sl.bytes = (elem ? vt->rep : vt->dof) * ss; sl.align_class = ac * 10 + pre;
      cur += sl.bytes + gap * ss;
      (elem ? ar.eslot : ar.tslot).push_back(sl);
    };
    // interleave element and tangent slots in the order given by the plan
    for (int i = 0; i < vt->NE; ++i) { place(i, true); if (i < vt->NT) place(i, false); }
    for (int i = vt->NE; i < vt->NT; ++i) place(i, false);
    ar.size = cur + 64;
    ar.raw = (unsigned char*)std::malloc((size_t)ar.size + 64);
    ar.base = (unsigned char*)(((uintptr_t)ar.raw + 63) & ~(uintptr_t)63);
    ar.ref = (unsigned char*)std::malloc((size_t)ar.size);
    ar.snap = (unsigned char*)std::malloc((size_t)ar.size);
    // canaries: finite garbage scalars
    Rng cr(plan.seed ^ 0xCA11A57ull);
    for (long b = 0; b + ss <= ar.size; b += ss) {
      if (vt->is_float) { float f = (float)cr.logmag(1e3, 1e6); std::memcpy(ar.base + b, &f, 4); }
      else { double d = cr.logmag(1e3, 1e6); std::memcpy(ar.base + b, &d, 8); }
    }
  }

  void make_states() {
    std::vector<void*> eb((size_t)vt->NE), tb((size_t)vt->NT);
    if (is_asan()) {
      // exact-size heap blocks: any access outside a view is an AddressSanitizer report
      for (int i = 0; i < vt->NE; ++i) { eb[i] = std::malloc(ar.eslot[i].bytes); ar.heap.push_back(eb[i]); }
      for (int i = 0; i < vt->NT; ++i) { tb[i] = std::malloc(ar.tslot[i].bytes); ar.heap.push_back(tb[i]); }
    } else {
      for (int i = 0; i < vt->NE; ++i) eb[i] = ar.base + ar.eslot[i].off;
      for (int i = 0; i < vt->NT; ++i) tb[i] = ar.base + ar.tslot[i].off;
    }
    V = vt->state_new(eb.data(), tb.data());   // writes identity / zero into every slot
    M = vt->state_new(nullptr, nullptr);
  }

  void apply_sets() {
    for (const Step& s : plan.steps) {
      for (void* st : {V, M}) switch (s.kind) {
        case ST_SETE: vt->set_elem(st, s.slot, 2, s.vals.data()); break;
        case ST_SETT: vt->set_tan(st, s.slot, 2, s.vals.data()); break;
        case ST_SETP: vt->set_pt(st, s.slot, s.vals.data()); break;
        case ST_SETVEC: { int sl[16]; int n = 0; for (double v : s.vals) if (n < 16) sl[n++] = (int)v; vt->set_vec(st, sl, n, s.slot == 1); } break;
        default: break;
      }
    }
  }

  // ---- which slots does the plan use; everything else belongs to the neighbour writer ----------------------------
  // (The race detector knows nothing about our serialisation: the neighbour may only ever write bytes that no
  //  operation of the whole run is entitled to access, otherwise its earlier writes would be reported against
  //  later legitimate accesses.)
  void op_slots(const OpRec& op, std::vector<int>& es, std::vector<int>& ts) {
    const OpInfo& inf = op_info(op.op);
    switch (inf.cls) {
      case C_ELEM: case C_MUT_E:
        es.push_back(op.a);
        if (inf.arg2 == A_ELEM) es.push_back(op.b);
        if (inf.arg2 == A_TAN) ts.push_back(op.b);
        break;
      case C_TAN: case C_MUT_T:
        ts.push_back(op.a);
        if (inf.arg2 == A_ELEM || op.op == OP_TM_LOG_INTO) es.push_back(op.b);
        if (inf.arg2 == A_TAN || op.op == OP_TM_STREAM || op.op == OP_TM_SETVEE) ts.push_back(op.b);
        break;
      case C_ALG:
        if (op.op == OP_INTERP_SLERP || op.op == OP_INTERP_CUBIC || op.op == OP_INTERP_SMOOTH) {
          es.push_back(op.a); es.push_back(op.b); ts.push_back(op.c % vt->NT); ts.push_back((op.c + 1) % vt->NT);
        }
        break;
      case C_STATIC:
        if (op.op == OP_VEE) ts.push_back(op.a);
        if (op.op == OP_BRACKET_S) { ts.push_back(op.a); ts.push_back(op.b); }
        break;
      default: break;
    }
  }
  void compute_ownership() {
    ar.nb_owned.assign((size_t)ar.size, 1);
    std::vector<int> es, ts;
    for (const Step& s : plan.steps) {
      if (s.kind == ST_USERW) es.push_back(s.slot);
      if (s.kind == ST_OP) {
        op_slots(s.op, es, ts);
        if (s.dst >= 0) { ValKind vk = op_value_kind(s.op.op); if (vk == VK_ELEM) es.push_back(s.dst); if (vk == VK_TAN) ts.push_back(s.dst); }
      }
    }
    int used = 0;
    for (int i : es) if (i >= 0 && i < (int)ar.eslot.size()) for (long b = ar.eslot[i].off; b < ar.eslot[i].off + ar.eslot[i].bytes; ++b) ar.nb_owned[b] = 0;
    for (int i : ts) if (i >= 0 && i < (int)ar.tslot.size()) for (long b = ar.tslot[i].off; b < ar.tslot[i].off + ar.tslot[i].bytes; ++b) ar.nb_owned[b] = 0;
    for (char c : ar.nb_owned) if (!c) ++used;
    res.num["arena_bytes"] = (double)ar.size;
    res.num["arena_bytes_used_by_ops"] = used;
  }
  void dst_range(const OpRec& op, long& dst_lo, long& dst_hi) {
    const OpInfo& inf = op_info(op.op);
    dst_lo = dst_hi = -1;
    if (inf.cls == C_MUT_E && op.ka == K_MAP) { dst_lo = ar.eslot[op.a].off; dst_hi = dst_lo + ar.eslot[op.a].bytes; }
    if (inf.cls == C_MUT_T && op.ka == K_MAP) { dst_lo = ar.tslot[op.a].off; dst_hi = dst_lo + ar.tslot[op.a].bytes; }
  }

  enum Tol { T_EXACT, T_ARITH, T_ITER };
  Tol tol_class(int op) {
    switch (op) {
      case OP_M_ASSIGN: case OP_M_ASSIGN_EIGEN: case OP_M_MOVE_ASSIGN: case OP_M_COEFFWRITE: case OP_COEFFS:
      case OP_TM_ASSIGN: case OP_TM_ASSIGN_EIGEN: case OP_TM_COEFFWRITE: case OP_TM_SETZERO: case OP_TM_STREAM:
      case OP_T_NEG: case OP_DATAPTR: case OP_HAT: case OP_ZERO: case OP_GENERATOR: case OP_T_GENERATOR_M:
      case OP_M_SETTERS: case OP_TM_BLOCKSET: case OP_T_ACCESSORS: case OP_CONSTRUCT: case OP_STREAM: case OP_T_STREAM:
      case OP_TM_MOVE_ASSIGN: case OP_T_DATAPTR: case OP_T_CONSTRUCT:
        return T_EXACT;
      case OP_INTERP_SLERP: case OP_INTERP_CUBIC: case OP_INTERP_SMOOTH: case OP_AVG_BIINV: case OP_AVG: case OP_AVG_FL:
      case OP_AVG_FR: case OP_DECASTELJAU:
        return T_ITER;
      default: return T_ARITH;
    }
  }
  bool close_enough(const double* a, const double* b, int n, Tol t, int& where) {
    const double em = vt->is_float ? 1.1920929e-07 : 2.220446049250313e-16;
    double mx = 0;
    for (int i = 0; i < n; ++i) { mx = std::max(mx, std::fabs(a[i])); mx = std::max(mx, std::fabs(b[i])); }
    const double tol = t == T_ITER ? (vt->is_float ? 1e-2 : 1e-6) * (1 + mx) : 1e3 * em * (1 + mx);
    for (int i = 0; i < n; ++i) {
      if (std::memcmp(&a[i], &b[i], 8) == 0) continue;
      if (t == T_EXACT) { where = i; return false; }
      if (std::isnan(a[i]) && std::isnan(b[i])) continue;
      if (!(std::fabs(a[i] - b[i]) <= tol)) { where = i; return false; }
      res.add("n.not_bit_identical_within_tol", 1);
    }
    return true;
  }

  // ---- one step -------------------------------------------------------------------------------------------------
  bool step(const Step& s) {
    const OpRec& op = s.op;
    const OpInfo& inf = op_info(op.op);
    long dst_lo, dst_hi;
    dst_range(op, dst_lo, dst_hi);
    if (!is_asan()) {
      if (!threaded) {
        // neighbour fault without a second thread: fresh garbage in every gap
        const long ss = (long)vt->scalar_size;
        Rng gr(plan.seed ^ (uint64_t)(idx * 7919 + 13));
        std::vector<char> inslot((size_t)ar.size, 0);
        for (auto& sl : ar.eslot) for (long b = sl.off; b < sl.off + sl.bytes; ++b) inslot[b] = 1;
        for (auto& sl : ar.tslot) for (long b = sl.off; b < sl.off + sl.bytes; ++b) inslot[b] = 1;
        for (long b = 0; b + ss <= ar.size; b += ss) {
          if (inslot[b]) continue;
          if (vt->is_float) { float f = (float)gr.logmag(1e3, 1e6); vs_mem_copy(ar.base + b, &f, 4); }
          else { double d = gr.logmag(1e3, 1e6); vs_mem_copy(ar.base + b, &d, 8); }
        }
        res.add("f.neighbour_scramble", 1);
      }
      vs_mem_copy(ar.snap, ar.base, (unsigned long)ar.size);
    }
    // reference model first (owning objects only), then the planned operand kinds on the arena
    uint64_t rs[5]; vs_rand_save(rs);
    OpRec mop = op; mop.ka = K_OWN; mop.kb = K_OWN;
    Out m; vt->exec(M, &mop, &m);
    vs_rand_restore(rs);
    if (threaded && op.fparam) vs_preempt_in(op.fparam);
    Out v; vt->exec(V, &op, &v);
    res.add((std::string("op.") + inf.name).c_str(), 1);
    res.add("steps", 1);
    {
      char cb[64]; snprintf(cb, sizeof cb, "%d.%d.%d.%d", inf.cls == C_TAN || inf.cls == C_MUT_T ? ar.tslot[op.a % vt->NT].align_class : ar.eslot[op.a % vt->NE].align_class,
                            (int)op.op, (int)op.ka, (int)op.kb);
      combos.insert(cb);
    }
    if (v.status == 9 || m.status == 9) { res.add("n.not_applicable", 1); return true; }
    // (1) same result as the owning-object model
    if (v.status != m.status) {
      res.fail("view_vs_owning", cls("view_vs_owning", op.op), std::string(inf.name) + " through operand kinds (" + std::to_string(op.ka) + "," +
               std::to_string(op.kb) + ") ended with " + status_name(v.status) + ", the owning-object model with " + status_name(m.status), idx);
      return false;
    }
    if (op.fault == F_REJECT) {
      res.add("f.rejected_call", 1);
      if (v.status != (int)op.fparam) { res.fail("rejected_call", cls("rejected_call", op.op), std::string(inf.name) + " was not refused", idx); return false; }
    }
    const Tol tc = tol_class(op.op);
    int where = -1;
    const double* pairs[3][2] = {{v.v, m.v}, {v.j1, m.j1}, {v.j2, m.j2}};
    const int ns[3][2] = {{v.nv, m.nv}, {v.n1, m.n1}, {v.n2, m.n2}};
    for (int k = 0; k < 3; ++k) {
      if (op.op == OP_M_ALIAS && k > 0) continue;
      if (ns[k][0] != ns[k][1] || !close_enough(pairs[k][0], pairs[k][1], ns[k][0], tc, where)) {
        std::ostringstream d; d.precision(17);
        d << inf.name << " in " << vt->name << " through operand kinds (" << (int)op.ka << "," << (int)op.kb << ") differs from the owning-object model in "
          << (k == 0 ? "the returned value" : k == 1 ? "output 1" : "output 2");
        if (where >= 0) d << " at entry " << where << ": " << pairs[k][0][where] << " vs " << pairs[k][1][where];
        res.fail("view_vs_owning", cls("view_vs_owning", op.op), d.str(), idx);
        return false;
      }
    }
    if (v.flags & 1) { res.fail("output_block", cls("output_block", op.op), "write outside a bound output block", idx); return false; }
    if ((v.flags | m.flags) & 4) {
      res.fail("assignment_postcondition", cls("assignment_postcondition", op.op), std::string(inf.name) + " in " + vt->name + " through operand kinds (" +
               std::to_string((int)op.ka) + "," + std::to_string((int)op.kb) + ") did not leave the source's coefficients in the destination's own storage" +
               ((m.flags & 4) ? " (owning objects as well)" : ""), idx);
      return false;
    }
    if ((v.flags | m.flags) & 8) {
      res.fail("held_result_changed", cls("held_result_changed", op.op), std::string(inf.name) + " in " + vt->name + " through operand kinds (" +
               std::to_string((int)op.ka) + "," + std::to_string((int)op.kb) + "): a result bound to a const reference changed while other objects were used", idx);
      return false;
    }
    if ((op.op == OP_DATAPTR || op.op == OP_T_DATAPTR) && v.status == 0 && (v.v[0] != 1.0 || v.v[1] != 1.0 || v.v[2] != 1.0)) {
      res.fail("data_pointer", cls("data_pointer", op.op), std::string("view does not alias the user buffer in place (data()==buffer: ") + (v.v[0] == 1.0 ? "yes" : "NO") +
               ", sub-view offsets: " + (v.v[1] == 1.0 ? "ok" : "WRONG") + ", copy of the view views the same buffer: " + (v.v[2] == 1.0 ? "yes" : "NO") + ")", idx);
      return false;
    }
    // (2) the arena changed only inside the destination slot
    if (!is_asan()) {
      long d = vs_mem_diff(ar.base, ar.snap, (unsigned long)ar.size, dst_lo, dst_hi);
      if (d >= 0) {
        std::ostringstream ds;
        ds << inf.name << " in " << vt->name << " through kind " << (int)op.ka << " changed byte " << d << " of the user memory outside the " << (dst_lo >= 0 ? "destination view" : "(empty) set of bytes it may write")
           << " [" << dst_lo << "," << dst_hi << ")";
        // name the victim
        for (size_t i = 0; i < ar.eslot.size(); ++i) if (d >= ar.eslot[i].off && d < ar.eslot[i].off + ar.eslot[i].bytes) ds << " - inside element slot " << i;
        for (size_t i = 0; i < ar.tslot.size(); ++i) if (d >= ar.tslot[i].off && d < ar.tslot[i].off + ar.tslot[i].bytes) ds << " - inside tangent slot " << i;
        res.fail("stray_write", cls("stray_write", op.op), ds.str(), idx);
        return false;
      }
    }
    // (3) written slot == model slot; then keep model, owning copy and buffer in lock step
    if (inf.cls == C_MUT_E || inf.cls == C_MUT_T) {
      const bool e = inf.cls == C_MUT_E;
      const int n = e ? vt->rep : vt->dof;
      double cv[32], cm[32];
      if (e) { vt->get_elem(V, op.a, op.ka == K_MAP ? 1 : 0, cv); vt->get_elem(M, op.a, 0, cm); }
      else { vt->get_tan(V, op.a, op.ka == K_MAP ? 1 : 0, cv); vt->get_tan(M, op.a, 0, cm); }
      if (!close_enough(cv, cm, n, tc, where)) {
        std::ostringstream d; d.precision(17);
        d << "after " << inf.name << " through kind " << (int)op.ka << " the " << (op.ka == K_MAP ? "viewed buffer" : "owning object") << " of " << vt->name
          << " differs from the owning-object model at coefficient " << where << ": " << cv[where] << " vs " << cm[where];
        res.fail("slot_vs_model", cls("slot_vs_model", op.op), d.str(), idx);
        return false;
      }
      if (e) { vt->set_elem(V, op.a, 2, cv); vt->set_elem(M, op.a, 2, cv); }
      else { vt->set_tan(V, op.a, 2, cv); vt->set_tan(M, op.a, 2, cv); }
    } else if (s.dst >= 0 && v.status == 0) {
      ValKind vk = op_value_kind(op.op);
      if (vk == VK_ELEM && v.nv == vt->rep && all_finite(v.v, v.nv)) { vt->set_elem(V, s.dst, 2, v.v); vt->set_elem(M, s.dst, 2, v.v); }
      if (vk == VK_TAN && v.nv == vt->dof && all_finite(v.v, v.nv)) { vt->set_tan(V, s.dst, 2, v.v); vt->set_tan(M, s.dst, 2, v.v); }
    }
    return true;
  }

  // ---- generation ----------------------------------------------------------------------------------------------------
  void generate() {
    plan.check = "C10"; plan.seed = o.seed;
    vt = group((int)rng.below(n_groups()));
    plan.groups.push_back(vt->name);
    for (int i = 0; i < vt->NE; ++i) plan.set(("lay_e" + std::to_string(i)).c_str(), (long)(rng.below(6) * 100 + (rng.chance(0.4) ? (1 + 2 * rng.below(2)) * 10 : 0) + (rng.chance(0.5) ? 0 : (rng.chance(0.5) ? 1 : 3))));
    for (int i = 0; i < vt->NT; ++i) plan.set(("lay_t" + std::to_string(i)).c_str(), (long)(rng.below(6) * 100 + (rng.chance(0.4) ? (1 + 2 * rng.below(2)) * 10 : 0) + (rng.chance(0.5) ? 0 : (rng.chance(0.5) ? 1 : 3))));
    for (int i = 0; i < vt->NE; ++i) {
      ElemSpec sp; sp.angle = rng.uniform(0.1, 2.9); sp.neg_hemisphere = rng.chance(0.3); sp.lin_lo = 1e-2; sp.lin_hi = 10;
      if (rng.chance(0.12)) sp.angle = std::fabs(rng.logmag(1e-12, 1e-7));   // small-angle branches through views too
      double c[32]; gen_elem(vt, rng, sp, c);
      plan.steps.push_back(make_set(ST_SETE, 0, i, c, vt->rep));
    }
    for (int i = 0; i < vt->NT; ++i) {
      TanSpec sp; sp.angle = rng.chance(0.2) ? std::fabs(rng.logmag(1e-10, 1e-6)) : rng.uniform(0.05, 1.4); sp.lin_lo = 1e-2; sp.lin_hi = 3;
      double t[32]; gen_tan(vt, rng, sp, t);
      plan.steps.push_back(make_set(ST_SETT, 0, i, t, vt->dof));
    }
    for (int i = 0; i < vt->NP; ++i) { double p[32]; gen_pt(vt, rng, 1e-2, 10, p); plan.steps.push_back(make_set(ST_SETP, 0, i, p, vt->dim)); }
    Step vv; vv.kind = ST_SETVEC; vv.group = 0; for (int i = 0; i < 3; ++i) vv.vals.push_back(i);
    plan.steps.push_back(vv);
    const int len = 5 + (int)rng.below(o.thorough ? 80 : 36);
    int squarings = 0;
    // slots [use_ne, NE) and [use_nt, NT) are never named by an operation: they belong to the neighbour writer
    const int use_ne = 2 + (int)rng.below(5), use_nt = 2 + (int)rng.below(3);
    for (int i = 0; i < len; ++i) {
      if ((vt->caps & CAP_NORMALIZE) && rng.chance(0.06)) {
        // the user drops un-normalised rotation data into a buffer on which views already exist, optionally copies
        // it into an owning object (NDEBUG builds: an exact copy), then normalises it through the long-lived view
        const int slot = (int)rng.below(use_ne);
        ElemSpec sp; sp.angle = rng.uniform(0.1, 2.9); sp.lin_lo = 1e-2; sp.lin_hi = 10; sp.norm_scale = rng.uniform(0.5, 2.0);
        double c[32]; gen_elem(vt, rng, sp, c);
        if (rng.chance(0.15)) {
          // degenerate data: an all-zero rotation part; normalize() through the view must do exactly what it does on
          // an owning object with the same coefficients (whatever that is); the slot gets valid data again afterwards
          double z[32]; for (int q = 0; q < vt->rep; ++q) z[q] = c[q];
          for (int k = 0; k < vt->n_unit; ++k) for (int q = 0; q < vt->unit[k].len; ++q) z[vt->unit[k].off + q] = 0.0;
          plan.steps.push_back(make_set(ST_USERW, 0, slot, z, vt->rep));
          Step nz = make_op(0, OP_M_NORMALIZE, slot, 0, -1); nz.op.ka = K_MAP;
          plan.steps.push_back(nz);
        }
        Step w = make_set(ST_USERW, 0, slot, c, vt->rep);
        plan.steps.push_back(w);
        if (!is_asan() && rng.chance(0.5)) {
          Step cs = make_op(0, OP_CONSTRUCT, slot, 0, -1); cs.op.ka = (uint8_t)(rng.chance(0.5) ? K_MAP : K_CMAP);
          plan.steps.push_back(cs);
        }
        Step ns = make_op(0, OP_M_NORMALIZE, slot, 0, -1); ns.op.ka = K_MAP;
        if (rng.chance(0.2)) ns.op.variant |= V_FRESH;
        plan.steps.push_back(ns);
        continue;
      }
      for (;;) {
        int op = (int)rng.below(OP__END);
        const OpInfo& inf = op_info(op);
        if (!inf.name) continue;
        if (op == OP_ROTATION && !(vt->caps & CAP_ROTATION)) continue;
        if (op == OP_TRANSFORM && (vt->caps & CAP_BUNDLE)) continue;
        if ((op == OP_SMALLADJ || op == OP_BRACKET || op == OP_BRACKET_S) && !(vt->caps & CAP_SMALLADJ)) continue;
        if (op == OP_AVG && vt->dof == 1) continue;
        if (op == OP_DECASTELJAU && vt->is_float) continue;
        if (op == OP_M_NORMALIZE && !(vt->caps & CAP_NORMALIZE)) continue;
        if (op == OP_M_SUBVIEW_WRITE && !(vt->caps & (CAP_ASSO3 | CAP_BUNDLE))) continue;
        if ((op == OP_M_MULEQ || op == OP_M_ALIAS || op == OP_M_PLUSEQ) && ++squarings > 10) continue;
        // favour operations that actually go through views
        if ((inf.cls == C_STATIC || op == OP_SMOOTH_PHI) && rng.chance(0.8)) continue;
        Step s = make_op(0, op, 0, 0, -1);
        const int ne = use_ne, nt = use_nt;
        s.op.a = (uint8_t)rng.below((inf.cls == C_TAN || inf.cls == C_MUT_T) ? nt : ne);
        if (inf.cls == C_STATIC && (op == OP_VEE || op == OP_BRACKET_S)) { s.op.a = (uint8_t)rng.below(nt); s.op.b = (uint8_t)rng.below(nt); }
        switch (inf.arg2) {
          case A_ELEM: s.op.b = (uint8_t)rng.below(ne); break;
          case A_TAN: s.op.b = (uint8_t)rng.below(nt); break;
          case A_PT: s.op.b = (uint8_t)rng.below(vt->NP); break;
          default: break;
        }
        if (op == OP_TM_LOG_INTO) s.op.b = (uint8_t)rng.below(ne);
        s.op.c = (uint8_t)rng.below(nt > 1 ? nt - 1 : 1);
        if (op == OP_GENERATOR || op == OP_T_GENERATOR_M) s.op.c = (uint8_t)rng.below(vt->dof);
        if (op == OP_SMOOTH_PHI) { s.op.c = (uint8_t)(1 + rng.below(4)); s.op.s = rng.unit(); }
        if (op == OP_INTERP_SLERP || op == OP_INTERP_CUBIC || op == OP_INTERP_SMOOTH) s.op.s = round_scalar(vt, rng.uniform(0.05, 0.95));
        if (op == OP_ISAPPROX || op == OP_T_ISAPPROX) s.op.s = vt->eps * 1e3;
        if (op == OP_T_SCALE) s.op.s = round_scalar(vt, rng.uniform(-2, 2));
        if (op == OP_TM_MULEQ || op == OP_TM_DIVEQ) s.op.s = round_scalar(vt, rng.uniform(0.5, 1.5));
        if (op == OP_M_ALIAS) s.op.c = (uint8_t)rng.below(AL__N);
        if (op == OP_M_SUBVIEW_WRITE) s.op.c = (uint8_t)rng.below(3);
        if (op == OP_M_COEFFWRITE || op == OP_TM_COEFFWRITE) s.op.variant = (uint8_t)rng.below(3);
        // operand kinds: views most of the time
        s.op.ka = (uint8_t)(rng.chance(0.2) ? K_OWN : (rng.chance(0.5) ? K_MAP : K_CMAP));
        s.op.kb = (uint8_t)(rng.chance(0.25) ? K_OWN : (rng.chance(0.5) ? K_MAP : K_CMAP));
        if (inf.cls == C_MUT_E || inf.cls == C_MUT_T) s.op.ka = (uint8_t)(rng.chance(0.15) ? K_OWN : K_MAP);
        if (op == OP_BRACKET || op == OP_JT_MUL) { s.op.ka = K_OWN; s.op.kb = K_OWN; }
        if (inf.nout) s.op.mask = (uint8_t)rng.below(1u << inf.nout);
        if (rng.chance(0.15) && (op == OP_INTERP_SLERP || op == OP_TM_PLUSEQ || op == OP_TM_MINUSEQ)) s.op.variant |= V_ALT;
        if (op == OP_M_MOVE_ASSIGN && rng.chance(0.6)) { s.op.variant |= V_ALT; s.op.kb = K_MAP; }
        if (op == OP_M_MOVE_ASSIGN || op == OP_TM_MOVE_ASSIGN || op == OP_CTOR) s.op.c = (uint8_t)rng.below(20);
        if (rng.chance(0.3)) s.op.variant |= V_FRESH;
        if (op == OP_COEFFS && rng.chance(0.5)) s.op.variant |= V_ALT;
        if (rng.chance(0.3) && op == OP_LOG && (vt->caps & (CAP_ASSO3 | CAP_BUNDLE))) s.op.variant |= V_SUB;
        ValKind vk = op_value_kind(op);
        if (inf.cls != C_MUT_E && inf.cls != C_MUT_T && rng.chance(0.4)) {
          if (vk == VK_ELEM) s.dst = (int)rng.below(ne);
          if (vk == VK_TAN) s.dst = (int)rng.below(nt);
        }
        s.op.fparam = (uint16_t)(rng.chance(0.6) ? 1 + rng.below(3000) : 0);   // pre-emption point inside the operation
        plan.steps.push_back(s);
        break;
      }
    }
    plan.set("threads", is_tsan() ? 2 : 1);
    // the neighbour only stops when the worker is done: a policy that can keep one thread running for ever
    // (fixed priorities) would livelock, so the scheduler picks uniformly between the two
    plan.set("policy", 0);
  }

  // ---- threads ------------------------------------------------------------------------------------------------------------
  static void* worker_tramp(void* p) { static_cast<Sim*>(p)->worker(); return nullptr; }
  static void* neigh_tramp(void* p) { static_cast<Sim*>(p)->neighbour(); return nullptr; }

  void run_steps() {
    for (size_t i = 0; i < plan.steps.size(); ++i) {
      if (plan.steps[i].kind == ST_USERW) {
        // the user writes the buffer directly (memcpy into his own memory), behind every view that exists on it
        const Step& s = plan.steps[i];
        vt->set_elem(V, s.slot, 2, s.vals.data()); vt->set_elem(M, s.slot, 2, s.vals.data());
        res.add("f.user_direct_write", 1);
        continue;
      }
      if (plan.steps[i].kind != ST_OP) continue;
      idx = (long)i;
      if (threaded) vs_yield(VS_R_OPB, (unsigned)i);
      if (!step(plan.steps[i])) break;
    }
  }
  void worker() {
    vs_thread_begin(0);
    run_steps();
    vs_flag_set(1);
    vs_thread_end();
  }
  // The neighbour owns every byte of the arena the current operation is not entitled to touch and keeps
  // rewriting it (with the value it must have anyway).  Plain, instrumented stores.
  void neighbour() {
    vs_thread_begin(1);
    const long ss = (long)vt->scalar_size;
    unsigned k = 0;
    long writes = 0;
    while (!vs_flag_get()) {
      vs_yield(VS_R_NEIGHBOUR, k++);
      for (long b = 0; b + ss <= ar.size; b += ss) {
        bool mine = true;
        for (long q = b; q < b + ss; ++q) if (!ar.nb_owned[(size_t)q]) mine = false;
        if (!mine) continue;
        if (vt->is_float) { float f; std::memcpy(&f, ar.ref + b, 4); *(volatile float*)(ar.base + b) = f; }
        else { double d; std::memcpy(&d, ar.ref + b, 8); *(volatile double*)(ar.base + b) = d; }
        ++writes;
      }
    }
    nb_writes = writes; nb_rounds = k;
    vs_thread_end();
  }
  long nb_writes = 0, nb_rounds = 0;

  void run() {
    vs_rand_mode(1, (o.replay ? o.replay->seed : o.seed) ^ 0x10101);
    if (o.replay) { plan = *o.replay; vt = plan.groups.empty() ? nullptr : group_by_name(plan.groups[0].c_str()); }
    else generate();
    if (!vt) { res.status = "harness_error"; res.detail = "unknown group"; return; }
    if (o.dry) { if (o.record) *o.record = plan; res.str["dry"] = "1"; return; }
    build_layout();
    make_states();
    apply_sets();
    if (!is_asan()) vs_mem_copy(ar.ref, ar.base, (unsigned long)ar.size);
    compute_ownership();
    threaded = plan.cfg_int("threads", 1) == 2 && !is_asan();
    if (threaded) {
      long nops = 0; for (const Step& s : plan.steps) if (s.kind == ST_OP) ++nops;
      vs_flag_set(0);
      vs_sim_begin(plan.seed, 2, (int)plan.cfg_int("policy", 0), 1, 4 * nops + 16, 40 * nops + 400);
      vs_set_guard_points(0);
      if (plan.has_schedule) vs_sim_replay(plan.schedule.data(), (int)plan.schedule.size());
      pthread_t t0, t1;
      pthread_create(&t0, nullptr, worker_tramp, this);
      pthread_create(&t1, nullptr, neigh_tramp, this);
      int rc = vs_run();
      if (rc != 0) { res.status = "harness_error"; res.detail = "scheduler rc " + std::to_string(rc); res.print(stdout); fflush(stdout); _exit(2); }
      pthread_join(t0, nullptr); pthread_join(t1, nullptr);
      res.num["f.neighbour_rounds"] = (double)nb_rounds;
      res.num["f.neighbour_writes"] = (double)nb_writes;
      res.num["f.preempt"] = (double)vs_preempts_fired();
      res.num["sched_steps"] = (double)vs_steps();
      char hb[32]; snprintf(hb, sizeof hb, "%016llx", (unsigned long long)vs_event_hash()); res.str["evhash"] = hb;
      if (o.record) { plan.has_schedule = true; plan.schedule.clear(); for (long i = 0; i < vs_schedule_len(); ++i) plan.schedule.push_back(vs_schedule_at(i)); }
    } else {
      run_steps();
    }
    res.num["tsan_reports"] = vs_tsan_reports();
    res.str["groups"] = vt->name;
    {
      std::string cs; int n = 0;
      for (auto& c : combos) { if (n++) cs += ","; cs += c; }
      res.str["combos"] = cs;
      Fnv f; for (const Step& s : plan.steps) if (s.kind == ST_OP) { f.i32(s.op.op); f.i32(s.op.a); f.i32(s.op.b); f.i32(s.op.ka); f.i32(s.op.kb); }
      char hb[32]; snprintf(hb, sizeof hb, "%016llx", (unsigned long long)f.h); res.str["hist"] = hb;
    }
    if (o.record) *o.record = plan;
    vt->state_free(V); vt->state_free(M);
    for (void* p : ar.heap) std::free(p);
    std::free(ar.raw); std::free(ar.ref); std::free(ar.snap);
  }
};

}  // namespace

void run_c10(const RunOpts& o, Result& res) {
  Sim s(o, res);
  s.run();
}

}  // namespace vsim
