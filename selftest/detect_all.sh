#!/bin/bash
# Runs the matching quick check against every seeded change / mutant and records the outcome in <dir>/detect.json
# (seeded) or selftest/mutants/detect.json.  Group subsets keep the scratch rebuild short; the run count is the
# quick budget or less.  usage: detect_all.sh [pattern]
VERIF="$(cd "$(dirname "$0")/.." && pwd)"; cd "$VERIF"
PAT="${1:-}"
groups_for() {
  case "$1" in
    *c03a3*|*c08a2*|*c09a4*|*r2c09_4*|*r2c03_3*) echo "SE2d;SE2f;BunAd";;
    *r3c08_1*) echo "SE2d;SE2f;BunAd";;
    *r3c08_2*) echo "SE23d;SE23f;SE3d";;
    *r3c08_3*) echo "SE3d;SE3f;SO3d";;
    *r3c03_1*) echo "SGal3d;SGal3f;BunBd";;
    *r3c03_2*) echo "SE3f;SE23f;SGal3f;SO3f";;
    *r3c03_3*) echo "SO3d;SO3f;SE3d;SE3f";;
    *r3c14_3*) echo "BunAd;BunAf;BunBd";;
    *r3c14_1*|*r3c09_2*) echo "SO3d;SO3f;SE3d;SE3f";;
    *r3c09_1*) echo "SGal3d;SGal3f;BunBd";;
    *r3c09_3*) echo "SO3d;SO3f;SE3d";;
    *r3c10_*) echo "SO3d;SE2f;SE3d;BunAd";;
    *r2c14_3*) echo "BunAd;BunAf;BunBd";;
    *r2c14_2*|*r2c09_1*|*r2c09_2*|*r2c10_*|*r2c03_*) echo "SO3d;SO3f;SE3d;SE3f";;
    *r2c08_*) echo "SO3d;SE2d;SE3d;SE2f";;
    *r2c09_3*) echo "SO3d;SE2f;SE3d";;
    *c03a2*) echo "SE3d;SE23d;SGal3d;SE3f";;
    *C03-*|*c08a1*|*c08a3*) echo "SO3d;SO3f;SE3d;SE3f";;
    *bundle-cast*|*c09a2*|*c14a1*) echo "BunAd;BunAf;BunBd";;
    *c08a4*|*c10a3*) echo "SE23d;SE23f;SE3d";;
    *c09a1*) echo "SO3d;SE2f;SE3d";;
    *c09a3*) echo "SO3d;SO3f;BunAd;SE3d";;
    *c10a1*) echo "SO3d;SE2f;SE3d;BunAd";;
    *c10a2*|*c14b2*) echo "SGal3d;SGal3f;BunBd";;
    *c10a4*|*c14a2*) echo "SE3d;SE3f;SO3d";;
    *c14b3*) echo "SO3d;SE2f;SE3d";;
    *) echo "SO3d;SE2f;R3d";;
  esac
}
one() { # dir-or-patch property id
  local patch="$1" prop="$2" id="$3" out="$4"
  local g; g="$(groups_for "$id")"
  local log; log="$(mktemp)"
  local t0=$(date +%s)
  MUT_WORKTREE=1 VERIF_JOBS="${VERIF_JOBS:-8}" selftest/run_mutant.sh "$patch" "$prop" "$g" "${RUNS:-2400}" > "$log" 2>&1; local rc=$?
  local t1=$(date +%s)
  python3 - "$log" "$rc" "$prop" "$g" "$out" "$id" "$((t1-t0))" "${RUNS:-2400}" <<'EOF'
import sys,json,re
log,rc,prop,groups,out,ident,secs,nruns=sys.argv[1:]
txt=open(log,errors='replace').read()
classes=sorted(set(re.findall(r'class=([^;\s]+)',txt))|set(re.findall(r'further violation class not minimised \(limit \d+\): (\S+)',txt)))
mins=re.findall(r'minimised (\d+) -> (\d+) steps',txt)
summary=[l for l in txt.splitlines() if l.startswith('runs=')]
rec=dict(id=ident, property=prop, command='selftest/run_mutant.sh <patch> %s "%s" %s'%(prop,groups,nruns), exit_code=int(rc),
         detected=(int(rc)==1), violation_classes=classes[:12], minimised=[dict(before=int(a),after=int(b)) for a,b in mins[:6]],
         summary=summary[-1] if summary else '', seconds=int(secs),
         harness_errors=len(re.findall(r'HARNESS-ERROR',txt)))
try: allrec=json.load(open(out))
except Exception: allrec={}
if out.endswith('detect.json') and '/mutants/' in out:
    allrec[ident]=rec; json.dump(allrec,open(out,'w'),indent=1)
else:
    json.dump(rec,open(out,'w'),indent=1)
print(ident, 'exit',rc, 'classes',classes[:3])
EOF
  rm -f "$log"
}
for d in seeded/*/; do
  id="$(basename "$d")"; [ -n "$PAT" ] && [[ "$id" != *$PAT* ]] && continue
  prop="${id%%-*}"
  one "$d/patch.diff" "$prop" "$id" "$d/detect.json"
done
for p in selftest/mutants/*.diff; do
  id="$(basename "$p" .diff)"; [ -n "$PAT" ] && [[ "$id" != *$PAT* ]] && continue
  one "$p" "${id%%-*}" "$id" "selftest/mutants/detect.json"
done
