#!/usr/bin/env python3
"""Writes seeded/<id>/meta.json from the hand-written descriptions below plus the machine-written
verify.json (independent confirmation: applies, repo tests pass, demo fails with / passes without) and
detect.json (outcome of the matching quick check against the change)."""
import json
import os

VERIF = os.path.dirname(os.path.dirname(os.path.abspath(__file__)))

DESC = {
 "C03-so3-log-small-angle-hemisphere": ("reverse of fix 5684019: SO3::log small-angle branch uses coefficient +2 regardless of the sign of w",
     "a unit quaternion with w<0 and |vec|^2 <= eps, reachable only by composition (e.g. exp(3x)*exp((2pi-3-2e-8)x)) or re-representation", "author (defect found by check C03)"),
 "C08-bundle-cast-raw-coefficients": ("reverse of fix f4d7595: Bundle::cast<>() falls back to the raw coefficient cast",
     "a Bundle element cast float->double (also the second leg of a double->float->double round trip)", "author (defect found by check C08)"),
 "C03-c03a1": ("SO3 log: series fast path for eps<|v|^2<1e-4 that is only valid for w>0", "w<0 and rotation angle 2pi-eps with 3e-7<eps<2e-2 (composition only)", "sub-agent seed-c03a, round 1"),
 "C03-c03a2": ("SO3Tangent::ljacinv falls back to first order when |sin theta|<=eps_sqrt", "rotation angle within 1.5e-7 of pi and a translation off the axis (SE3, SE_2_3, SGal3)", "sub-agent seed-c03a, round 1"),
 "C03-c03a3": ("SE2 log small-angle branch simplified to V^-1 = I", "0<|theta|<1.5e-7 with a translation that is not tiny, SE2 only", "sub-agent seed-c03a, round 1"),
 "C03-c03a4": ("SO3 log half angle via asin(|v|) instead of atan2(|v|,w)", "rotation angle within ~1e-7 of pi, typically reached by composing two rotations adding to a half turn", "sub-agent seed-c03a, round 1"),
 "C08-c08a1": ("SO3Tangent::exp small-angle threshold widened from eps to eps_sqrt", "a tangent with rotation angle in 4e-7..3.9e-4 (float 1e-2..5.9e-2); the branch returns the un-normalised (v/2,1)", "sub-agent seed-c08a, round 1"),
 "C08-c08a2": ("SE2 compose: misplaced parenthesis makes the renormalisation one-sided", "long pure compose / plus histories on SE2 (norm drifts downwards without bound)", "sub-agent seed-c08a, round 1"),
 "C08-c08a3": ("two cooperating sites: first-order approxSqrtInv + SO3/SE3 cast renormalising with it", "cast<double>() of a float SO3/SE3 element that has single-precision history (squared norm off by >2.4e-7)", "sub-agent seed-c08a, round 1"),
 "C08-c08a4": ("SE_2_3 acceptance check (MANIF_ASSERT) compares the squared norm", "assertion-enabled build, an SE_2_3 element whose squared norm sits at exactly 1+-eps", "sub-agent seed-c08a, round 1"),
 "C09-c09a1": ("generic rminus negates the tangent in place when J_t_mb is requested and restores the sign only inside if(J_t_ma)", "exactly the output subset {second Jacobian}", "sub-agent seed-c09a, round 1"),
 "C09-c09a2": ("Bundle compose zeroes the Jacobian through a stride-less Eigen::Map of J->data()", "a Bundle, and the Jacobian bound to a block of a larger matrix", "sub-agent seed-c09a, round 1"),
 "C09-c09a3": ("thread_local cache of the trig factor of the SO3 log Jacobian, not invalidated by the small-angle branch", "log(J) on a large angle, then log(J) on identity / tiny rotation of the same operand type, then the first call again", "sub-agent seed-c09a, round 1"),
 "C09-c09a4": ("in-place SE2 operator*= that re-reads the right operand after writing the destination", "X *= X or two views over one buffer, SE2 only", "sub-agent seed-c09a, round 1"),
 "C10-c10a1": ("MANIF_GROUP_MAP_ASSIGN_OP: operator=(Map&&) re-seats the view (placement new) instead of copying coefficients", "Map<G> = std::move(Map<G>) of the same group type", "sub-agent seed-c10a, round 1"),
 "C10-c10a2": ("Map<const SGal3> owns a copy of the 11 coefficients", "SGal3, const view; buffer modified after the view was created, or data() compared with the buffer address", "sub-agent seed-c10a, round 1"),
 "C10-c10a3": ("SE_2_3 Map declared Aligned16 when RepSize*sizeof(Scalar) is a multiple of 16", "SE_2_3 double, user buffer not 16-byte aligned (segfault / Eigen alignment assert)", "sub-agent seed-c10a, round 1"),
 "C10-c10a4": ("mutable Map<SE3> constructor normalises the user buffer", "SE3, mutable view, exact byte comparison of the buffer / results", "sub-agent seed-c10a, round 1"),
 "C14-c14a1": ("Bundle Jacobians / adjoint assembled in a function-local static matrix", "a Bundle, two threads inside the same getter at once", "sub-agent seed-c14a, round 1"),
 "C14-c14a2": ("SE3 rotation matrix memoised in mutable members, key published before the matrix", "owning SE3, first const use of an element happening concurrently", "sub-agent seed-c14a, round 1"),
 "C14-c14a3": ("InnerWeights lazily initialised behind an atomic flag with non-atomic re-initialisation", "very first use of a tangent type, two threads staggered by less than one initialisation", "sub-agent seed-c14a, round 1"),
 "C14-c14b1": ("InnerWeights memo claimed under a mutex, filled after releasing it (race-free)", "two threads whose first InnerWeights-family call overlaps: the second returns a zero matrix", "sub-agent seed-c14b, round 1"),
 "C14-c14b2": ("SGal3 rjac/ljac single-entry memos guarded by hand-written spin locks taken in opposite orders", "SGal3, two threads missing both memos at the same moment: both spin for ever", "sub-agent seed-c14b, round 1"),
 "C14-c14b3": ("singleton memo of the last rminus in interpolate; holds()/get() lock individually (race-free)", "threads concurrently interpolating different pairs of the same group type", "sub-agent seed-c14b, round 1"),
 "C14-r2c14_1": ("detail::raise() copies the message into a process-wide static char[256] ('last error') before throwing", "two threads throwing concurrently (Generator(bad i), interpolate(t outside [0,1]), empty average ...)", "sub-agent seed-r2c14, round 2 (adversarial)"),
 "C14-r2c14_2": ("unsynchronised drift statistics updated inside the renormalisation branch of SO3 compose", "operands accepted by the library but ~0.6 eps off the unit sphere, so that the branch is taken, in two threads", "sub-agent seed-r2c14, round 2 (adversarial)"),
 "C14-r2c14_3": ("BundleTangent::hat() assembles its result in a function-local static matrix", "two threads in hat() of the same Bundle type (nothing inside the library calls it)", "sub-agent seed-r2c14, round 2 (adversarial)"),
 "C09-r2c09_1": ("one-entry thread_local sin/cos memo shared between float and double instantiations", "a float call immediately followed by a double call with a bit-identical angle (dyadic angle about one axis)", "sub-agent seed-r2c09, round 2 (adversarial)"),
 "C09-r2c09_2": ("SO3 compose returns early (skipping the renormalisation) when no Jacobian is requested", "a product whose squared norm is more than eps from 1 (operand inside the acceptance band)", "sub-agent seed-r2c09, round 2 (adversarial)"),
 "C09-r2c09_3": ("average_biinvariant: `static const Scalar w` freezes 1/N to the first container size of the process", "an earlier average over a container of another size, first in the process", "sub-agent seed-r2c09, round 2 (adversarial)"),
 "C09-r2c09_4": ("SE2 rminus fills both Jacobians in one pass with a sign slip in the Taylor branch of Jl^-1", "relative heading below 1.5e-7 (double) with a non-tiny relative translation; only J_t_mb alone vs with J_t_ma", "sub-agent seed-r2c09, round 2 (adversarial)"),
 "C10-r2c10_1": ("in-place SE3 operator*= (translation written before the right operand's quaternion is read)", "right-hand view partially overlapping the destination view in one buffer", "sub-agent seed-r2c10, round 2 (adversarial)"),
 "C10-r2c10_2": ("Map<SO3> caches an 'is normalised' flag reset only by writes through the view", "long-lived view; buffer changed behind it; normalize()", "sub-agent seed-r2c10, round 2 (adversarial)"),
 "C10-r2c10_3": ("SO3/SE3 converting constructors renormalise when |sqnorm-1|>eps instead of copying", "owning object constructed (not assigned) from a view over de-normalised data, NDEBUG build", "sub-agent seed-r2c10, round 2 (adversarial)"),
 "C10-r2c10_4": ("16-byte aligned fast path in normalize() without Eigen's zero-norm guard", "normalize() of an all-zero rotation part; view and owning object in different alignment classes", "sub-agent seed-r2c10, round 2 (adversarial)"),
 "C08-r2c08_1": ("decasteljau pre-sizes its output as n_segments*k*degree and fills it by index, ignoring the degree==2 case", "decasteljau(..., degree = 2, ...): half of the returned curve is default-constructed elements", "sub-agent seed-r2c08, round 2 (adversarial)"),
 "C08-r2c08_2": ("SO3 log hemisphere chosen by w/abs(w)", "rotation part with w exactly +-0 (SO3d(1,0,0,0), two exact quarter turns): log / minus / interpolate / averages return NaN", "sub-agent seed-r2c08, round 2 (adversarial)"),
 "C08-r2c08_3": ("interpolate_smooth gains MANIF_ASSERT(0 <= phi <= 1); the expanded polynomial overshoots 1 by a few ulp near t = 1", "assertion build, CNSMOOTH with t close to 1 (3.9e-5 of uniform t)", "sub-agent seed-r2c08, round 2 (adversarial)"),
 "C08-r2c08_4": ("Tangent /= s implemented as *= 1/s", "a subnormal divisor (1/s overflows although t/s is finite)", "sub-agent seed-r2c08, round 2 (adversarial)"),
 "C03-r2c03_1": ("SE3 log small-angle shortcut t - 0.5 w x t for angles below 1e-4 (drops theta^2/12)", "SE3 double, angle near 1e-4: relative translation error 8e-10 (baseline 1e-12 there)", "sub-agent seed-r2c03, round 2 (adversarial)"),
 "C03-r2c03_2": ("SO3 log branch-free hemisphere sign atan2(sgn(w) s, sgn(w) c)", "w == 0 exactly (+0: log = 0, -0: |log| = 2 pi)", "sub-agent seed-r2c03, round 2 (adversarial)"),
 "C03-r2c03_3": ("SE2 log through cot(theta/2) = (1+cos)/sin evaluated from the stored complex number", "rotation part stored exactly as (-1, +-0): NaN; accuracy loss (5e-9) within 1e-4 of pi", "sub-agent seed-r2c03, round 2 (adversarial)"),
 "C03-r2c03_4": ("SO3 log(J) small-angle fast path without the hemisphere sign (only when a Jacobian is requested)", "w<0 element within 3e-7 rad of the identity AND the Jacobian overload", "sub-agent seed-r2c03, round 2 (adversarial)"),
 "C14-r3c14_1": ("SO3::rotation() memoises quaternion->matrix in a process-wide seqlock of relaxed atomics whose reader re-validates with 'sequence is even' instead of 'sequence unchanged'", "two threads using two or more distinct quaternions of one scalar type concurrently; invisible to the race detector (all accesses atomic), only the values are torn", "sub-agent seed-r3c14, round 3 (property text only)"),
 "C14-r3c14_2": ("Identity()/Zero()/InnerWeights() statics replaced by a hand-rolled StaticOnce<T> (atomic state + mutex + condition variable) whose waiters test the predicate before taking the lock", "concurrent first use of one helper by two threads; no data race and correct values, the loser sleeps for ever (lost wake-up)", "sub-agent seed-r3c14, round 3 (property text only)"),
 "C14-r3c14_3": ("BundleTangent::Generator(i) caches assembled generators in a lazily grown std::vector (published count atomic, readers lock-free, no reserve)", "a Bundle; first use of a higher index on one thread while another copies a lower, already published entry (push_back reallocates under the reader)", "sub-agent seed-r3c14, round 3 (property text only)"),
 "C09-r3c09_1": ("SGal3Tangent::exp(): thread_local memo of the E block keyed on theta^2 although E depends on the rotation vector", "SGal3 with t != 0 and nu != 0; the previous exp() had the bit-identical angle about a different axis (exp(tau) then exp(-tau))", "sub-agent seed-r3c09, round 3 (property text only)"),
 "C09-r3c09_2": ("SO3::log() flips the stored quaternion in place (const_cast) in the small-angle w<0 case instead of using the coefficient -2; returned values identical", "a valid unit quaternion next to minus identity (w<0, |vec|^2<=eps) held in a stored object; only a before/after comparison of the operand shows it", "sub-agent seed-r3c09, round 3 (property text only)"),
 "C09-r3c09_3": ("SO3::rotation() returns a const reference to a static thread_local scratch matrix", "two rotation() results of one static type alive at once: inside one expression, or a result bound to const auto& across a later call on another object", "sub-agent seed-r3c09, round 3 (property text only)"),
 "C10-r3c10_1": ("Map<const SO3Tangent> traits inherit the owning DataType: the const view becomes a snapshot of the buffer", "const tangent view created, buffer modified, view used again; or view.data() compared with the buffer", "sub-agent seed-r3c10, round 3 (property text only)"),
 "C10-r3c10_2": ("ceres Plus functors use the output block as scratch (out = exp(d); out = state*out)", "the caller passes the same pointer as state and as output of the functor", "sub-agent seed-r3c10, round 3 (property text only)"),
 "C10-r3c10_3": ("MANIF_TANGENT_MAP_ASSIGN_OP: operator=(Map&&) re-seats the tangent view instead of copying", "a tangent Map assigned from an rvalue Map of the same type (std::move, or temporaries from asSO3()/element<i>())", "sub-agent seed-r3c10, round 3 (property text only)"),
 "C03-r3c03_1": ("SGal3 log: small-rotation shortcut E = I/2 hoisted out of fillE and compared with eps_sqrt instead of eps", "SGal3 only, time and velocity non-zero, rotation angle in [1.5e-7, 3.9e-4): exp still uses the full series, the translation of log is off by ~theta/6 |t nu|", "sub-agent seed-r3c03, round 3 (property text only)"),
 "C03-r3c03_2": ("SO3Tangent::ljac threshold eps replaced by the literal 1e-8 with a second-order series (an improvement for double)", "float only: angles in (1e-4, 3.45e-3) take the closed form where 1-cos cancels; exp of SE3f/SE_2_3f/SGal3f is wrong by 1e-5..6.5e-5 relative, log is not, so log(exp t) != t", "sub-agent seed-r3c03, round 3 (property text only)"),
 "C03-r3c03_3": ("SO3 log generic branch: 2 atan2(|v|, w) with the hemisphere fold replaced by +-2 asin(|v|)", "angle pi - delta: error 4e-16/delta; |v| rounding just above 1 gives NaN (5% of composed rotations by about pi)", "sub-agent seed-r3c03, round 3 (property text only)"),
 "C08-r3c08_1": ("SE2 compose renormalises when abs(norm-1) > eps with exact division instead of abs(sqnorm-1) > eps with approxSqrtInv", "SE2 only, long histories (hundreds of X *= D, 1e5 random-walk steps): the norm lands exactly on 1+eps, kept by compose, refused by the constructor inside compose (assertion build throws; NDEBUG leaves it on the threshold)", "sub-agent seed-r3c08, round 3 (property text only)"),
 "C08-r3c08_2": ("SE_2_3 inverse takes the quaternion from the transposed rotation matrix instead of the conjugate", "SE_2_3 only, rotation angle in (90, 120) degrees: the norm deviation is amplified up to 3x per inversion (6-30 repeated inversions, or one inverse of an operand 0.45 eps off)", "sub-agent seed-r3c08, round 3 (property text only)"),
 "C08-r3c08_3": ("SE3 normalize(): the norm is computed inside MANIF_ASSERT (side effect in an assertion macro)", "NDEBUG builds only, SE3 only, normalize() only: division by 0, rotation coefficients become +-inf; the repo tests call normalize() only in assertion builds", "sub-agent seed-r3c08, round 3 (property text only)"),
}


NOTES = {
 "C10-r2c10_1": "NOT DETECTED, deliberately not attempted: the change only shows when the right-hand view partially overlaps the "
                "destination view inside one buffer.  Views that overlap each other are outside the property's quantifier (user buffers with "
                "guard zones); plain `Map = Map` on overlapping buffers is not overlap-safe on the pinned tree either (Eigen assumes no aliasing), "
                "so a model of what overlapping views 'should' do would have to be invented.  Recorded as a known blind spot in DESIGN.md section 12.",
 "C03-r3c03_1": "Confirmation note: the first full run of the repo suite with this patch reported 1 of 17 executables failing while three other "
                "builds were loading the machine (the log was overwritten before the failing executable was identified); a second full run passed "
                "17 of 17 and 18 further runs of gtest_sgal3 / gtest_bundle / gtest_bundle_single_group (time(0)-seeded) passed.  Recorded as passing.",
 "C03-r3c03_2": "NOT DETECTED, and judged not detectable with a sound margin: the float error the change introduces (<= 1.9 a, a = eps_mach/sqrt(Constants::eps) "
                "= 3.5e-5) stays inside the accuracy class that the library's own small-angle switch defines (the pinned tree reaches 0.5 a right above its "
                "switch and uses up to a quarter of the 16 a (1+L) tolerance in 2400 histories).  A legitimate implementation that moves the switch to eps/10 has "
                "the same worst case, so a tolerance tight enough to flag this change would raise alarms on code where the property holds.",
 "C10-r3c10_2": "NOT COUNTED as a break of C10, not detected and deliberately not attempted: every manif operation, through every kind of view, behaves "
                "as before; the only observable difference needs the caller to pass one pointer as both the input state and the output of the "
                "ceres functor.  Neither the property (views vs owning objects; exact writes; no stray reads) nor the contract of ceres' Plus "
                "(distinct x and x_plus_delta; ceres' own quaternion manifold is not alias-safe either) promises that, so a check flagging it would "
                "raise alarms on code where the property holds.  The functors themselves belong to C12 (not applicable here: ceres is not installed). "
                "Kept for the record with the author's demonstration.",
}


def main():
    sd = os.path.join(VERIF, "seeded")
    for ident in sorted(os.listdir(sd)):
        d = os.path.join(sd, ident)
        if not os.path.isdir(d):
            continue
        what, needs, author = DESC.get(ident, ("", "", ""))
        ver = json.load(open(os.path.join(d, "verify.json"))) if os.path.exists(os.path.join(d, "verify.json")) else None
        det = json.load(open(os.path.join(d, "detect.json"))) if os.path.exists(os.path.join(d, "detect.json")) else None
        meta = dict(
            id=ident, breaks_property=ident.split("-")[0], change=what, needs_to_manifest=needs, written_by=author,
            files=sorted(f for f in os.listdir(d) if f not in ("meta.json",)),
            independent_confirmation=(dict(
                how="selftest/verify_seeded.sh: scratch worktree /tmp/vs_verify of /repo HEAD, patch applied, repo test suite "
                    "(cmake --build + ctest, 17 executables) and the author's demo built with and without the patch",
                confirmed=ver.get("confirmed"), test_suite=ver.get("test_suite_summary"),
                demo_exit_with_patch=ver["demo_with_patch"]["exit"], demo_exit_without_patch=ver["demo_without_patch"]["exit"],
                demo_build_cmd=ver.get("demo_build_cmd")) if ver else "pending"),
            detection=(dict(ran=det["command"], detected=det["detected"], exit_code=det["exit_code"],
                            violation_classes=det["violation_classes"], minimised=det["minimised"], summary=det["summary"])
                       if det else "pending"),
        )
        if ident in NOTES:
            meta["note"] = NOTES[ident]
        json.dump(meta, open(os.path.join(d, "meta.json"), "w"), indent=1)
        print(ident, "confirmed" if ver and ver.get("confirmed") else "unconfirmed", "detected" if det and det["detected"] else "?")


if __name__ == "__main__":
    main()
