#!/bin/bash
# Independent confirmation of a seeded change (brief: "keep a change only after you have confirmed all of that
# yourself in a scratch worktree"):  the patch applies and compiles, the repo's own test suite still passes with
# it, and the author's demonstration fails with the patch and passes without.
# usage: verify_seeded.sh <dir with patch.diff and demo.cpp> [origin worktree path used inside the demo's build command]
# Results: <dir>/verify.json (exit codes and output tails).  Scratch worktree: /tmp/vs_verify (kept between calls
# for incremental test builds; remove with `git -C /repo worktree remove --force /tmp/vs_verify`).
set -u
D="$(realpath "$1")"; ORIG="${2:-}"
WT=/tmp/vs_verify
JOBS="${VERIFY_JOBS:-6}"
if [ ! -d "$WT" ]; then git -C /repo worktree add -q --detach "$WT" HEAD || exit 3; fi
git -C "$WT" checkout -q -- . ; git -C "$WT" checkout -q --detach "$(git -C /repo rev-parse HEAD)"
if [ ! -f "$WT/_build_tests/build.ninja" ]; then
  cmake -G Ninja -S "$WT" -B "$WT/_build_tests" -DBUILD_TESTING=ON -DCMAKE_BUILD_TYPE=RelWithDebInfo -DCMAKE_CXX_FLAGS=-Wno-error > "$WT/_cfg.log" 2>&1 || { echo "configure failed"; exit 3; }
fi
# demo build command: first compiler invocation in the head of demo.cpp (comment markers stripped, continuation
# lines joined); include paths are rewritten to this worktree
CMD="$(head -60 "$D/demo.cpp" | sed -E 's#^[ \t]*(//|\*|/\*)+ ?##' | sed -e ':a' -e '/\\$/N; s/\\\n//; ta' | grep -m1 -E '(^|[ :])(g\+\+|clang\+\+)(-[0-9]+)? ' | sed -E 's#^.*(g\+\+|clang\+\+)#\1#')"
[ -n "$ORIG" ] && CMD="${CMD//$ORIG/$WT}"
CMD="$(echo "$CMD" | sed -E "s#-I *[^ ]*/(include|external/tl)( |\$)#-I$WT/\1 #g")"
CMD="${CMD%%&&*}"; CMD="${CMD%%;*}"; CMD="${CMD%% (*}"   # trailing "(remark)" after the command
build_demo() { # $1 = output binary
  local c; c="$(echo "$CMD" | sed -E "s#(^| )[^ ]*demo\.cpp#\1$D/demo.cpp#; s#-o +[^ ]+#-o $1#")"
  echo "$c" | grep -q -- "-o " || c="$c -o $1"
  ( cd "$D" && eval "$c" ) > "$1.build.log" 2>&1
}
run_demo() { ( cd "$D" && timeout 600 "$1" ) > "$1.out" 2>&1; echo $?; }

git -C "$WT" apply "$D/patch.diff" || { echo "patch does not apply"; exit 3; }
t0=$(date +%s)
if [ -n "${DEMO_ONLY:-}" ] && [ -f "$D/verify.json" ]; then
  BUILD_RC=$(python3 -c "import json;print(json.load(open('$D/verify.json'))['test_suite_build_rc'])")
  TEST_RC=$(python3 -c "import json;print(json.load(open('$D/verify.json'))['test_suite_rc'])")
  TESTS=$(python3 -c "import json;print(json.load(open('$D/verify.json'))['test_suite_summary'])")
else
cmake --build "$WT/_build_tests" -j"$JOBS" > "$WT/_build.log" 2>&1; BUILD_RC=$?
TEST_RC=-1; TESTS=""
if [ $BUILD_RC -eq 0 ]; then
  ctest --test-dir "$WT/_build_tests" -j"$JOBS" --timeout 900 > "$WT/_ctest.log" 2>&1; TEST_RC=$?
  TESTS="$(grep -E 'tests passed|tests failed' "$WT/_ctest.log" | tail -1)"
fi
fi
build_demo "$WT/_demo_with"; DW_B=$?; DW=-1; [ $DW_B -eq 0 ] && DW=$(run_demo "$WT/_demo_with")
git -C "$WT" checkout -q -- .
build_demo "$WT/_demo_without"; DO_B=$?; DO=-1; [ $DO_B -eq 0 ] && DO=$(run_demo "$WT/_demo_without")
t1=$(date +%s)
python3 - "$D" "$BUILD_RC" "$TEST_RC" "$TESTS" "$DW_B" "$DW" "$DO_B" "$DO" "$CMD" "$((t1-t0))" "$WT" <<'EOF'
import json,sys
d,brc,trc,tests,dwb,dw,dob,do,cmd,secs,wt=sys.argv[1:]
def tail(p):
    try: return open(p,errors='replace').read()[-1200:]
    except Exception: return ''
v=dict(patch_applies=True, test_suite_build_rc=int(brc), test_suite_rc=int(trc), test_suite_summary=tests,
       demo_build_cmd=cmd, demo_with_patch=dict(build_rc=int(dwb), exit=int(dw), output_tail=tail(wt+'/_demo_with.out')),
       demo_without_patch=dict(build_rc=int(dob), exit=int(do), output_tail=tail(wt+'/_demo_without.out')),
       seconds=int(secs), repo_commit=open('/repo/.git/HEAD').read().strip())
v['confirmed']= (v['test_suite_build_rc']==0 and v['test_suite_rc']==0 and int(dwb)==0 and int(dob)==0 and int(dw)!=0 and int(do)==0)
json.dump(v,open(d+'/verify.json','w'),indent=1)
print('confirmed' if v['confirmed'] else 'NOT-CONFIRMED', d, 'tests:',tests,'demo with/without exit:',dw,do)
EOF
