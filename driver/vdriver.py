#!/usr/bin/env python3
"""Driver of the manif deterministic simulator (DESIGN.md section 2).

  check <Cxx> <quick|thorough>     run a batch, gate / minimise / report violations, write evidence
  check --replay <file>            replay a minimised violation file

Exit codes: 0 property held on everything explored (known findings are printed, not failed),
            1 violation (a line "VIOLATION property=<id> replay=<path>" is printed),
            2 harness error (build failure, non-deterministic candidate, ...).
"""
import concurrent.futures as cf
import hashlib
import json
import os
import re
import subprocess
import sys
import time

VERIF = os.path.dirname(os.path.dirname(os.path.abspath(__file__)))
REPO = os.environ.get("MANIF_REPO", "/repo")
BUILD = os.environ.get("VERIF_BUILD_DIR") or os.path.join(VERIF, "build")
NCPU = int(os.environ.get("VERIF_JOBS", str(os.cpu_count() or 4)))

FLAVOURS = {
    "ship": "g++",
    "assert": "g++",
    "tsan": "clang++",
    "asan": "clang++",
    "cov": "clang++",     # reach measurement only (selftest/coverage.sh)
}

# per check: which flavours run which share of the batch, budgets, batching
CHECKS = {
    "C08": dict(
        flavours=["ship", "assert"],
        runs=dict(quick=2400, thorough=40000),
        per_process=dict(quick=25, thorough=50),
        fresh=False,
        timeout=dict(quick=120, thorough=3600),
    ),
    "C03": dict(
        flavours=["ship", "assert"],
        runs=dict(quick=2400, thorough=40000),
        per_process=dict(quick=25, thorough=50),
        fresh=False,
        timeout=dict(quick=120, thorough=3600),
    ),
    "C14": dict(
        flavours=["tsan", "ship"],
        runs=dict(quick=6000, thorough=300000),
        per_process=dict(quick=1, thorough=1),
        fresh=True,
        timeout=dict(quick=60, thorough=120),
    ),
    "C09": dict(
        flavours=["ship", "assert", "asan"],
        runs=dict(quick=3000, thorough=600000),
        per_process=dict(quick=20, thorough=200),
        fresh=False,   # the binary forks a pristine child per run itself
        timeout=dict(quick=120, thorough=1200),
    ),
    "C10": dict(
        flavours=["tsan", "ship", "asan"],
        runs=dict(quick=3000, thorough=600000),
        per_process=dict(quick=20, thorough=200),
        fresh=False,
        timeout=dict(quick=120, thorough=1200),
    ),
}


M64 = (1 << 64) - 1


def _splitmix(st):
    st = (st + 0x9E3779B97F4A7C15) & M64
    z = st
    z = ((z ^ (z >> 30)) * 0xBF58476D1CE4E5B9) & M64
    z = ((z ^ (z >> 27)) * 0x94D049BB133111EB) & M64
    return st, z ^ (z >> 31)


def run_seed(base, i):
    """Same derivation as vsim::run_seed (sim/core/prng.h)."""
    st = (base * 0xD1342543DE82EF95 + i) & M64
    st, _ = _splitmix(st)
    st, z = _splitmix(st)
    return z


def crash_class(rc, err):
    """Violation class of a process that died inside a run (signal / sanitizer deadly signal), else None."""
    san = classify_sanitizer(rc, err)
    if san:
        return san[1]
    if rc is not None and rc < 0 and rc != -999:
        return "crash/signal%d" % (-rc)
    if rc == 134:
        return "crash/abort"
    return None


def log(*a):
    print(*a, file=sys.stderr, flush=True)


# --------------------------------------------------------------------------- build
def binary(flavour):
    return os.path.join(BUILD, flavour, "manifsim")


def ensure_built(flavours):
    """(Re)build the flavour binaries from /repo's current working tree.  Incremental."""
    os.makedirs(BUILD, exist_ok=True)
    t0 = time.time()
    for fl in flavours:
        bdir = os.path.join(BUILD, fl)
        if not os.path.exists(os.path.join(bdir, "build.ninja")):
            cmd = ["cmake", "-S", os.path.join(VERIF, "sim"), "-B", bdir, "-G", "Ninja",
                   "-DFLAVOUR=" + fl, "-DCMAKE_CXX_COMPILER=" + FLAVOURS[fl], "-DMANIF_REPO=" + REPO]
            groups = os.environ.get("VS_GROUPS")
            if groups:
                cmd.append("-DVS_GROUPS=" + groups)
            r = subprocess.run(cmd, stdout=subprocess.PIPE, stderr=subprocess.STDOUT, text=True)
            if r.returncode != 0:
                log(r.stdout)
                log("HARNESS-ERROR: cmake configure failed for flavour", fl)
                sys.exit(2)
    # build all flavours in one go: ninja parallelises inside each; run them sequentially to keep -j sane
    for fl in flavours:
        bdir = os.path.join(BUILD, fl)
        r = subprocess.run(["ninja", "-C", bdir, "-j", str(NCPU)], stdout=subprocess.PIPE, stderr=subprocess.STDOUT, text=True)
        if r.returncode != 0:
            log(r.stdout[-6000:])
            log("HARNESS-ERROR: build failed for flavour %s (this is not a property violation)" % fl)
            sys.exit(2)
    return time.time() - t0


# --------------------------------------------------------------------------- running
STRING_KEYS = ("evhash", "hist", "fuhash", "seed", "combos", "groups", "class", "oracle", "kind", "dev_deciles", "role")


def parse_result(line):
    d = {}
    for tok in line.split()[1:]:
        if "=" not in tok:
            continue
        k, v = tok.split("=", 1)
        if k in STRING_KEYS or k.startswith("fuhash_") or k.startswith("d.") and not v.replace(".", "").isdigit():
            d[k] = v
            continue
        try:
            d[k] = int(v)
        except ValueError:
            try:
                d[k] = float(v)
            except ValueError:
                d[k] = v
    return d


def run_proc(cmd, timeout, extra_env=None):
    env = dict(os.environ)
    env.setdefault("TSAN_OPTIONS", "")
    if extra_env:
        env.update(extra_env)
    try:
        r = subprocess.run(cmd, stdout=subprocess.PIPE, stderr=subprocess.PIPE, text=True, timeout=timeout, env=env,
                           errors="replace")
        return r.returncode, r.stdout, r.stderr
    except subprocess.TimeoutExpired as e:
        return -999, (e.stdout or b"").decode(errors="replace") if isinstance(e.stdout, bytes) else (e.stdout or ""), "TIMEOUT"


def run_chunk(check, flavour, base, lo, hi, thorough, timeout, mode=None):
    cmd = [binary(flavour), "--check", check, "--base", str(base), "--from", str(lo), "--to", str(hi)]
    if thorough:
        cmd.append("--thorough")
    if mode:
        cmd += ["--mode", mode]
    rc, out, err = run_proc(cmd, timeout)
    results = []
    lines = out.splitlines()
    for i, ln in enumerate(lines):
        if ln.startswith("RESULT "):
            d = parse_result(ln)
            d["_flavour"] = flavour
            if i + 1 < len(lines) and lines[i + 1].startswith("DETAIL "):
                d["_detail"] = lines[i + 1][7:]
            results.append(d)
    return dict(rc=rc, results=results, stderr=err, lo=lo, hi=hi, flavour=flavour, cmd=cmd)


def run_single(check, flavour, seed, thorough, timeout, emit=None, events=None, mode=None, dry=False):
    cmd = [binary(flavour), "--check", check, "--seed", str(seed)]
    if dry:
        cmd.append("--dry")
    if thorough:
        cmd.append("--thorough")
    if emit:
        cmd += ["--emit-plan", emit]
    if events:
        cmd += ["--events", events]
    if mode:
        cmd += ["--mode", mode]
    rc, out, err = run_proc(cmd, timeout)
    return rc, out, err


def run_plan(flavour, plan_path, timeout, events=None, fast_watchdog=False):
    cmd = [binary(flavour), "--plan", plan_path]
    if events:
        cmd += ["--events", events]
    rc, out, err = run_proc(cmd, timeout, extra_env=(dict(VS_WATCHDOG_MS="1500", VS_FREERUN_MS="2500") if fast_watchdog else None))
    res = None
    detail = ""
    lines = out.splitlines()
    for i, ln in enumerate(lines):
        if ln.startswith("RESULT "):
            res = parse_result(ln)
            if i + 1 < len(lines) and lines[i + 1].startswith("DETAIL "):
                detail = lines[i + 1][7:]
    return rc, res, detail, err


# --------------------------------------------------------------------------- sanitizer output
def classify_sanitizer(rc, err):
    """Return (kind, key) for a sanitizer report in stderr or None."""
    if "ThreadSanitizer" in err:
        m = re.search(r"WARNING: ThreadSanitizer: ([^\n(]+)", err)
        what = (m.group(1).strip() if m else "report").replace(" ", "_")
        loc = ""
        m2 = re.search(r"Location is global '([^']+)'", err)
        if m2:
            loc = m2.group(1)
        else:
            m3 = re.search(r"#0 ([^\s]+(?:<[^\n]*?>)?[^\n]*?) (/[^\s:]+):(\d+)", err)
            if m3:
                loc = os.path.basename(m3.group(2)) + ":" + m3.group(3)
        return "tsan", "tsan/%s/%s" % (what, loc[:120].replace(" ", "_"))
    if "AddressSanitizer" in err:
        m = re.search(r"ERROR: AddressSanitizer: ([^\s]+)", err)
        m3 = re.search(r"#\d+ 0x[0-9a-f]+ in ([^\n]*?) (/repo/[^\s:]+):(\d+)", err)
        loc = (os.path.basename(m3.group(2)) + ":" + m3.group(3)) if m3 else ""
        return "asan", "asan/%s/%s" % (m.group(1) if m else "error", loc)
    if "runtime error:" in err:
        m = re.search(r"([^\s:]+):(\d+):\d+: runtime error: ([^\n]+)", err)
        if m:
            return "ubsan", "ubsan/%s:%s/%s" % (os.path.basename(m.group(1)), m.group(2), m.group(3)[:60].replace(" ", "_"))
        return "ubsan", "ubsan/unknown"
    return None


def san_is_harness(cls, err):
    return cls.startswith("tsan/") and harness_only_tsan(err)


def harness_only_tsan(err):
    """A TSan report none of whose stacks touches library code is a harness bug (DESIGN A.3)."""
    blocks = err.split("==================")
    for b in blocks:
        if "ThreadSanitizer" not in b:
            continue
        if "/repo/include" in b or "/usr/include/eigen3" in b or "manif::" in b or "Eigen::" in b:
            return False
    return True


# --------------------------------------------------------------------------- findings
def load_findings():
    p = os.environ.get("VERIF_FINDINGS_FILE") or os.path.join(VERIF, "known_findings.json")   # override: selftest only
    if not os.path.exists(p):
        return []
    return json.load(open(p)).get("findings", [])


def match_finding(prop, cls, detail, plan_lines):
    for f in load_findings():
        if f.get("status") != "known" or f.get("property") != prop:
            continue
        m = f.get("match", {})
        ok = True
        if "class_regex" in m and not re.search(m["class_regex"], cls or ""):
            ok = False
        if "detail_regex" in m and not re.search(m["detail_regex"], detail or ""):
            ok = False
        if "plan_regex" in m and not any(re.search(m["plan_regex"], ln) for ln in plan_lines):
            ok = False
        if ok:
            return f
    return None


# --------------------------------------------------------------------------- plan files
def read_plan(path):
    return [ln.rstrip("\n") for ln in open(path) if ln.strip()]


def write_plan(path, lines):
    with open(path, "w") as f:
        f.write("\n".join(lines) + "\n")


def split_plan(lines):
    head = [l for l in lines if not l.startswith("S ") and not l.startswith("SCHED") and not l.startswith("PRE")]
    steps = [l for l in lines if l.startswith("S ")]
    tail = [l for l in lines if l.startswith("SCHED") or l.startswith("PRE")]
    return head, steps, tail


class Tester:
    """Runs candidate plans and tells whether the same violation class persists."""

    def __init__(self, flavour, cls, workdir, timeout=60):
        self.flavour, self.cls, self.workdir, self.timeout = flavour, cls, workdir, timeout
        self.n = 0
        self.cache = {}
        self.fast = False      # shorter watchdog while minimising a "stuck" violation (every candidate costs seconds)
        self.budget = None     # max candidate runs (None = unlimited)

    def run(self, lines):
        key = hashlib.sha1("\n".join(lines).encode()).hexdigest()
        if key in self.cache:
            return self.cache[key]
        if self.budget is not None and self.n >= self.budget:
            return (False, None, "", "", 0)
        self.n += 1
        path = os.path.join(self.workdir, "cand_%d_%s.plan" % (os.getpid(), key[:12]))
        write_plan(path, lines)
        rc, res, detail, err = run_plan(self.flavour, path, self.timeout, fast_watchdog=self.fast)
        os.unlink(path)
        ok = False
        got = None
        if res is not None and res.get("status") == "violation":
            got = res.get("class")
        if got is None:
            got = crash_class(rc, err)
        if got is not None and same_class(got, self.cls):
            ok = True
        self.cache[key] = (ok, res, detail, err, rc)
        return self.cache[key]


def same_class(a, b):
    return a == b


def ddmin(steps, test):
    """Classic ddmin over a list; test(list) -> bool (True = still fails the same way)."""
    n = 2
    while len(steps) >= 2:
        chunk = max(1, len(steps) // n)
        subsets = [steps[i:i + chunk] for i in range(0, len(steps), chunk)]
        reduced = False
        for i in range(len(subsets)):
            comp = [x for j, s in enumerate(subsets) if j != i for x in s]
            if test(comp):
                steps = comp
                n = max(n - 1, 2)
                reduced = True
                break
        if not reduced:
            if chunk == 1:
                break
            n = min(len(steps), n * 2)
    return steps


def simplify_ops(steps, test):
    """Greedy per-step simplifications: rep -> smaller, mask/variant -> 0, kinds -> owning."""
    i = 0
    while i < len(steps):
        toks = steps[i].split()
        if len(toks) > 3 and toks[2] == "OP":
            # S g OP name thread a b c ka kb mask variant dst rep fault fparam s
            for idx, val in ((13, "1"), (10, "0"), (11, "0"), (8, "0"), (9, "0")):
                if toks[idx] != val:
                    t2 = list(toks)
                    t2[idx] = val
                    cand = steps[:i] + [" ".join(t2)] + steps[i + 1:]
                    if test(cand):
                        steps = cand
                        toks = t2
            # binary search on rep
            rep = int(toks[13])
            lo = 1
            while rep > 1 and lo < rep:
                mid = (lo + rep) // 2
                t2 = list(toks)
                t2[13] = str(mid)
                cand = steps[:i] + [" ".join(t2)] + steps[i + 1:]
                if test(cand):
                    rep = mid
                    toks = t2
                    steps = cand
                else:
                    lo = mid + 1
        i += 1
    return steps


def minimise_schedule(head, steps, tail, test_full):
    """Replace context switches by 'keep running the previous thread' while the violation persists."""
    sched_i = [i for i, l in enumerate(tail) if l.startswith("SCHED")]
    if not sched_i:
        return tail
    si = sched_i[0]
    toks = tail[si].split()
    sched = [int(x) for x in toks[2:]]
    # truncate from the end first
    lo, hi = 0, len(sched)
    while lo < hi:
        mid = (lo + hi) // 2
        cand = list(tail)
        cand[si] = "SCHED %d %s" % (mid, " ".join(map(str, sched[:mid])))
        if test_full(head + steps + cand):
            hi = mid
        else:
            lo = mid + 1
    sched = sched[:hi]
    tail = list(tail)
    tail[si] = "SCHED %d %s" % (len(sched), " ".join(map(str, sched)))
    # remove switches
    budget = 400
    i = 1
    while i < len(sched) and budget > 0:
        if sched[i] != sched[i - 1]:
            cand_s = list(sched)
            cand_s[i] = sched[i - 1]
            cand = list(tail)
            cand[si] = "SCHED %d %s" % (len(cand_s), " ".join(map(str, cand_s)))
            budget -= 1
            if test_full(head + steps + cand):
                sched = cand_s
                tail = cand
        i += 1
    # drop pre-emption points
    for pi in [i for i, l in enumerate(tail) if l.startswith("PRE")]:
        t = tail[pi].split()
        pts = t[3:]
        k = 0
        while k < len(pts) and budget > 0:
            cp = pts[:k] + pts[k + 1:]
            cand = list(tail)
            cand[pi] = "PRE %s %d %s" % (t[1], len(cp), " ".join(cp))
            budget -= 1
            if test_full(head + steps + cand):
                pts = cp
                tail = cand
            else:
                k += 1
    return tail


# --------------------------------------------------------------------------- violation handling
def handle_candidate(prop, cand, thorough, tmpdir):
    """Gate, minimise, write replay.  Returns dict(kind='violation'|'known'|'nondeterministic', ...)."""
    flavour, seed = cand["_flavour"], cand["seed"]
    cfg = CHECKS[prop]
    tmo = max(120, cfg["timeout"]["thorough" if thorough else "quick"])
    cls0 = cand.get("class") or cand.get("_san_class")
    # 1. determinism gate: same seed twice in fresh processes, must fail the same way with the same trace
    plans, hashes, classes = [], [], []
    for k in range(2):
        ppath = os.path.join(tmpdir, "gate_%s_%d.plan" % (seed, k))
        rc, out, err = run_single(prop, flavour, seed, thorough, tmo, emit=ppath, mode=cand.get("_mode"))
        res = None
        for ln in out.splitlines():
            if ln.startswith("RESULT "):
                res = parse_result(ln)
        c = res.get("class") if res and res.get("status") == "violation" else None
        if c is None:
            c = crash_class(rc, err)
        classes.append(c)
        hashes.append((res or {}).get("evhash", (res or {}).get("hist", "")))
        if not os.path.exists(ppath):
            # the process died before it could write its plan: have the plan generated without executing it
            run_single(prop, flavour, seed, thorough, tmo, emit=ppath, mode=cand.get("_mode"), dry=True)
        plans.append(ppath if os.path.exists(ppath) else None)
    if classes[0] is None or classes[0] != classes[1] or hashes[0] != hashes[1] or not same_class(classes[0], cls0):
        return dict(kind="nondeterministic", seed=seed, classes=classes, hashes=hashes, first=cls0)
    if not plans[0]:
        return dict(kind="nondeterministic", seed=seed, classes=classes, hashes=hashes, first="no plan emitted")
    lines = read_plan(plans[0])
    tester = Tester(flavour, cls0, tmpdir, timeout=tmo)
    ok, res, detail, err, rc = tester.run(lines)
    if not ok:
        return dict(kind="nondeterministic", seed=seed, classes=classes, hashes=hashes,
                    first="emitted plan does not reproduce (%s)" % (res,))
    # 2. minimise within the same violation class
    if cls0 in ("stuck", "progress"):
        tester.fast, tester.budget = True, 80
    head, steps, tail = split_plan(lines)
    n0 = len(steps)

    def t_steps(st):
        return tester.run(head + st + tail)[0]

    # cut everything after the failing step first
    fail_step = res.get("step", -1) if res else -1
    if isinstance(fail_step, int) and 0 <= fail_step < len(steps) - 1 and t_steps(steps[:fail_step + 1]):
        steps = steps[:fail_step + 1]
    steps = ddmin(steps, t_steps)
    steps = simplify_ops(steps, t_steps)
    steps = ddmin(steps, t_steps)
    tail = minimise_schedule(head, steps, tail, lambda l: tester.run(l)[0])
    final = head + steps + tail
    # 3. replay the minimised plan in a fresh process, twice (standard watchdog, no budget)
    tester.fast, tester.budget = False, None
    tester.cache.clear()
    ok1, res1, detail1, err1, rc1 = tester.run(final)
    tester.cache.clear()
    ok2, res2, detail2, err2, rc2 = tester.run(final)
    if not (ok1 and ok2):
        return dict(kind="nondeterministic", seed=seed, classes=classes, first="minimised plan does not replay")
    san = classify_sanitizer(rc1, err1)
    if not san and not detail1 and crash_class(rc1, err1):
        detail1 = "process died with %s while executing the plan; stderr tail: %s" % (crash_class(rc1, err1), err1[-600:].replace("\n", " | "))
    if san and not detail1:
        keep = [ln.strip() for ln in err1.splitlines() if ln.startswith("SUMMARY:") or "Location is" in ln or ln.startswith("WARNING: ") or ln.startswith("==") and "ERROR" in ln]
        detail1 = " | ".join(keep[:6])
    rep = dict(
        version=1, property=prop, flavour=flavour, seed=seed, thorough=bool(thorough),
        violation=dict(oracle=(res1 or {}).get("oracle", san[0] if san else "?"), cls=cls0,
                       step=(res1 or {}).get("step", -1), detail=detail1 or (err1[-3000:] if san else "")),
        event_log_hash=(res1 or {}).get("evhash", (res1 or {}).get("hist", "")),
        minimisation=dict(steps_before=n0, steps_after=len(steps), candidate_runs=tester.n),
        plan=final,
        sanitizer_report=(err1[-6000:] if san else ""),
    )
    known = match_finding(prop, cls0, rep["violation"]["detail"], final)
    rdir = os.path.join(BUILD if os.environ.get("VERIF_NO_EVIDENCE") else VERIF, "replays")
    os.makedirs(rdir, exist_ok=True)
    rpath = os.path.join(rdir, "%s-%s.json" % (prop, seed))
    json.dump(rep, open(rpath, "w"), indent=1)
    return dict(kind="known" if known else "violation", seed=seed, replay=rpath, cls=cls0, finding=known,
                detail=rep["violation"]["detail"], steps=len(steps), steps_before=n0)


# --------------------------------------------------------------------------- evidence
NONTRIVIAL = {}


def nontrivial_c08(r):
    if r.get("steps", 0) < 100:
        return None
    if r.get("p.renorm_expected", 0) > 0 and r.get("p.renorm_not_expected", 0) > 0:
        return (r.get("groups"), r.get("hist"))
    return None


def nontrivial_c03(r):
    if r.get("p.w_negative", 0) > 0 or r.get("p.log_angle_near_pi", 0) > 0 or r.get("p.angle_near_pi", 0) > 0:
        return (r.get("groups"), r.get("hist"))
    return None


def nontrivial_c14(r):
    if r.get("f.guard_contention", 0) > 0 or r.get("f.stall", 0) > 0 or r.get("f.preempt", 0) > 0:
        return r.get("evhash")
    return None


def nontrivial_c09(r):
    if r.get("hist_len", 0) >= 1:
        return (r.get("hist"), r.get("fuhash"))
    return None


def nontrivial_c10(r):
    return None  # computed from combos, see aggregate


NONTRIVIAL = dict(C08=nontrivial_c08, C03=nontrivial_c03, C14=nontrivial_c14, C09=nontrivial_c09, C10=nontrivial_c10)

RULES = dict(
    C08="one evaluation = one seeded operation history (mixed random walk of 2000/20000 steps over 1-2 groups, or one "
        "operation repeated 1e5/1e7 times) executed against the real library with per-step invariants; non-trivial = "
        "history of >= 100 library operations in which the compose renormalisation branch was both taken and not taken "
        "(recomputed by the harness from the operands' raw norms); distinct = distinct (groups, hash of the executed step list)",
    C03="one evaluation = one seeded history (as C08, plus scripted openings that reach w<0 / near-2pi / near-pi elements by "
        "composition) with round-trip invariants on every produced element; non-trivial = history that produced at least one "
        "quaternion with w<0 or a rotation within 1e-6 of pi; distinct = distinct (groups, hash of executed step list)",
    C14="one evaluation = one fresh process in which 2-8 real threads execute a seeded plan of const operations under the "
        "seeded scheduler; non-trivial = run in which a guard contention, an injected stall or a mid-operation pre-emption "
        "fired; distinct = distinct event-log hashes (sequence of (thread, reason, symbol, runnable set) per decision)",
    C09="one evaluation = one seed = three processes (pristine probes / history with probes / reversed history with other "
        "prewarm set); non-trivial = history length >= 1; distinct = distinct (history hash, first-use order hash)",
    C10="one evaluation = one seeded arena layout and operation history through views; non-trivial/distinct = distinct "
        "(alignment class, op, operand-kind tuple) combinations executed",
)


def aggregate(prop, tier, seed, results, wall, build_s, violations, notes):
    agg = {}
    distinct = set()
    combos = set()
    for r in results:
        for k, v in r.items():
            if isinstance(v, (int, float)) and not k.startswith("_") and k not in ("seed", "run", "step"):
                if k.startswith("max_"):
                    agg[k] = max(agg.get(k, 0), v)
                else:
                    agg[k] = agg.get(k, 0) + v
        key = NONTRIVIAL[prop](r)
        if key is not None:
            distinct.add(key)
        if prop == "C10" and r.get("combos"):
            for c in str(r["combos"]).split(","):
                combos.add(c)
    if prop == "C10":
        distinct = combos
    diags = {k[2:]: v for k, v in agg.items() if k.startswith("d.")}
    diag_names = {}
    for r in results:
        for k, v in r.items():
            if k.startswith("d.") and isinstance(v, str):
                diag_names.setdefault(k[2:], set()).add(v)
    extra_distinct = {}
    if prop == "C14":
        extra_distinct["distinct_schedules"] = len(set(r.get("evhash") for r in results if r.get("evhash")))
        extra_distinct["distinct_first_use_orders"] = len(set(r.get("fuhash") for r in results if r.get("fuhash")))
    if prop == "C09":
        extra_distinct["distinct_first_use_orders"] = len(set(r.get("fuhash") for r in results if r.get("fuhash")))
        extra_distinct["distinct_histories"] = len(set(r.get("hist") for r in results if r.get("hist")))
    if prop in ("C08", "C03", "C10"):
        extra_distinct["distinct_histories"] = len(set(r.get("hist") for r in results if r.get("hist")))
    faults = {k[2:]: v for k, v in agg.items() if k.startswith("f.")}
    probes = {k[2:]: v for k, v in agg.items() if k.startswith("p.")}
    ops = {k[3:]: v for k, v in agg.items() if k.startswith("op.")}
    zero_probes = [k for k, v in probes.items() if v == 0]
    samples = []
    for r in results[:3]:
        samples.append({k: v for k, v in r.items() if not k.startswith("op.")})
    by_flavour = {}
    for r in results:
        by_flavour[r.get("_flavour", "?")] = by_flavour.get(r.get("_flavour", "?"), 0) + 1
    ev = dict(
        property_id=prop, tier=tier, seed=int(seed), level="exploration",
        coverage=dict(
            evaluations=len(results),
            distinct_nontrivial=len(distinct),
            rule=RULES[prop],
            samples=samples,
            runs_per_hour=int(len(results) / max(wall, 1e-3) * 3600),
            logical_steps=int(agg.get("steps", 0)),
            simulated_time="no clock in the system under test; simulated time = logical steps (library operations "
                           "for history checks, scheduler decisions for schedule checks)",
            diagnostics=dict(counts=diags, names={k: sorted(v)[:20] for k, v in diag_names.items()},
                             note="observations that are not violations by themselves (DESIGN 2.4)"),
            fault_fired=faults, fault_kinds_armed_but_never_reached=(
                ["condvar_spurious_wakeup", "condvar_timeout", "condvar_notify_one_out_of_order", "lock_blocked"] if prop == "C14" and not any(k.startswith("condvar") for k in faults) else []),
            probes=probes, probes_at_zero=zero_probes, operations=ops,
            runs_by_flavour=by_flavour, **extra_distinct,
            maxima={k: v for k, v in agg.items() if k.startswith("max_")},
            other={k: v for k, v in agg.items() if k[:2] not in ("f.", "p.", "d.") and not k.startswith("op.") and not k.startswith("max_")},
            components=dict(
                real=["manif headers of /repo working tree", "Eigen 3.4", "tl::optional", "libstdc++ (guards, exceptions)",
                      "pthreads", "process memory"],
                stub=["choice of which thread runs (seeded scheduler)", "guard wait path (blocked thread parked by simulator)",
                      "mutex / once wait path and condition-variable wait, notify, time-out (simulated; none in the library on this tree)",
                      "rand() (seeded stream)"]),
            build_s=round(build_s, 1),
            notes=notes,
        ),
        assumptions=[
            "sampling, not enumeration: a clean batch is evidence, not proof",
            "oracle tolerances are fixed a priori (DESIGN 4.x), not calibrated on the tree",
            "compiler, libstdc++, Eigen and the sanitizer runtimes are trusted",
        ],
        wall_s=round(wall, 2),
        violations=violations,
    )
    evdir = os.path.join(BUILD if os.environ.get("VERIF_NO_EVIDENCE") else VERIF, "evidence")
    os.makedirs(evdir, exist_ok=True)
    json.dump(ev, open(os.path.join(evdir, prop + ".json"), "w"), indent=1)
    return ev


# --------------------------------------------------------------------------- main flows
def plan_batches(prop, tier):
    cfg = CHECKS[prop]
    n = int(os.environ.get("VERIF_RUNS", cfg["runs"][tier]))
    fl = cfg["flavours"]
    per = cfg["per_process"][tier]
    # split the run index space between flavours: first flavour gets half, the rest share the remainder
    shares = [0.5] + [0.5 / max(1, len(fl) - 1)] * (len(fl) - 1) if len(fl) > 1 else [1.0]
    jobs = []
    start = 0
    for f, sh in zip(fl, shares):
        cnt = max(1, int(n * sh))
        i = start
        while i < start + cnt:
            j = min(i + per, start + cnt)
            jobs.append((f, i, j))
            i = j
        start += cnt
    return jobs


def do_check(prop, tier):
    if prop not in CHECKS:
        log("unknown property", prop)
        return 2
    thorough = tier == "thorough"
    seed = int(os.environ.get("VERIF_SEED", "1"))
    cfg = CHECKS[prop]
    print("check %s tier=%s VERIF_SEED=%d" % (prop, tier, seed), flush=True)
    t0 = time.time()
    build_s = ensure_built(cfg["flavours"])
    tmpdir = os.path.join(BUILD, "tmp")
    os.makedirs(tmpdir, exist_ok=True)
    jobs = plan_batches(prop, tier)
    tmo = cfg["timeout"][tier]
    results, candidates, harness_errors = [], [], []
    t_run = time.time()
    wall_cap = float(os.environ.get("VERIF_WALL_CAP", "0") or 0)
    with cf.ThreadPoolExecutor(max_workers=NCPU) as ex:
        pending = {ex.submit(run_chunk, prop, f, seed, lo, hi, thorough, tmo): (f, lo, hi) for (f, lo, hi) in jobs}
        while pending:
            done, _ = cf.wait(list(pending), return_when=cf.FIRST_COMPLETED)
            for fu in done:
                f, lo, hi = pending.pop(fu)
                ch = fu.result()
                got = ch["results"]
                results.extend(got)
                for r in got:
                    if r.get("status") == "violation":
                        candidates.append(r)
                    elif r.get("status") != "ok":
                        harness_errors.append((r, ch["stderr"][-2000:]))
                expected = hi - lo
                cc = crash_class(ch["rc"], ch["stderr"])
                complete = len(got) >= expected
                if cc and san_is_harness(cc, ch["stderr"]):
                    harness_errors.append((dict(seed=None, status="sanitizer report in harness frames only"), ch["stderr"][-3000:]))
                elif cc and complete and expected == 1:
                    # single-run process that finished its run but carries a sanitizer report (race, UB with recovery, ...)
                    candidates.append(dict(seed=got[0].get("seed"), status="violation", _flavour=f, _san_class=cc, steps=got[0].get("steps", 0)))
                elif cc or not complete:
                    if ch["rc"] == -999:
                        harness_errors.append((dict(seed=None, status="timeout", cmd=" ".join(ch["cmd"])), ""))
                    elif expected == 1:
                        if cc:
                            candidates.append(dict(seed=str(run_seed(seed, lo)), status="violation", _flavour=f, _san_class=cc, steps=0))
                        else:
                            harness_errors.append((dict(seed=None, status="process rc=%s produced no result" % ch["rc"], cmd=" ".join(ch["cmd"])), ch["stderr"][-3000:]))
                    else:
                        # a multi-run process died or reported: re-run the first unfinished run alone, and the rest as a new chunk
                        bad = lo + len(got) if not complete else lo
                        if complete:
                            # report without death in a multi-run process: re-run every run of the chunk singly
                            for i in range(lo, hi):
                                pending[ex.submit(run_chunk, prop, f, seed, i, i + 1, thorough, tmo)] = (f, i, i + 1)
                            # drop the results of this chunk: they will be produced again
                            for r in got:
                                results.remove(r)
                                if r in candidates:
                                    candidates.remove(r)
                        else:
                            pending[ex.submit(run_chunk, prop, f, seed, bad, bad + 1, thorough, tmo)] = (f, bad, bad + 1)
                            if bad + 1 < hi:
                                pending[ex.submit(run_chunk, prop, f, seed, bad + 1, hi, thorough, tmo)] = (f, bad + 1, hi)
    wall = time.time() - t_run
    # ---- candidates -> gate / minimise -------------------------------------------------
    outcomes = []
    seen_classes = {}
    for c in candidates:
        key = (c.get("class") or c.get("_san_class"), c.get("_flavour"))
        seen_classes.setdefault(key, []).append(c)
    max_classes = int(os.environ.get("VERIF_MAX_CLASSES", "6"))
    for ci, (key, cs) in enumerate(sorted(seen_classes.items(), key=lambda kv: -len(kv[1]))):
        if ci >= max_classes:
            print("further violation class not minimised (limit %d): %s in %d runs, e.g. seed %s" % (
                max_classes, key[0], len(cs), cs[0].get("seed")), flush=True)
            continue
        cs = [c for c in cs if c.get("seed") is not None]
        if not cs:
            harness_errors.append((dict(status="sanitizer report without attributable run", cls=key[0]), ""))
            continue
        cs.sort(key=lambda c: c.get("steps", 0))      # smallest failing run first
        out = None
        for c in cs[:3]:
            out = handle_candidate(prop, c, thorough, tmpdir)
            if out["kind"] != "nondeterministic":
                break
        out["count"] = len(cs)
        outcomes.append(out)
    nviol = 0
    rc = 0
    for o in outcomes:
        if o["kind"] == "known":
            print("KNOWN-FINDING: property=%s %s (seen in %d runs; replay=%s)" % (prop, o["finding"]["what"], o["count"], o["replay"]), flush=True)
        elif o["kind"] == "violation":
            nviol += 1
            rc = 1
            print("DETAIL %s" % o["detail"][:1500], flush=True)
            print("minimised %d -> %d steps; class=%s; seen in %d runs" % (o["steps_before"], o["steps"], o["cls"], o["count"]), flush=True)
            print("VIOLATION property=%s replay=%s" % (prop, o["replay"]), flush=True)
        else:
            log("HARNESS-ERROR: candidate at seed %s did not reproduce deterministically: %s" % (o.get("seed"), o))
            if rc == 0:
                rc = 2
    for he, err in harness_errors[:5]:
        log("HARNESS-ERROR:", he, err)
    if harness_errors and rc == 0:
        rc = 2
    notes = []
    if harness_errors:
        notes.append("%d harness errors" % len(harness_errors))
    ev = aggregate(prop, tier, seed, [r for r in results if r.get("status") in ("ok", "violation")], wall, build_s, nviol, notes)
    cov = ev["coverage"]
    print("runs=%d distinct_nontrivial=%d runs/h=%d steps=%d wall=%.1fs build=%.1fs violations=%d" % (
        cov["evaluations"], cov["distinct_nontrivial"], cov["runs_per_hour"], cov["logical_steps"], wall, build_s, nviol), flush=True)
    if cov["diagnostics"]["counts"]:
        print("NOTE diagnostics (not violations by themselves): %s %s" % (json.dumps(cov["diagnostics"]["counts"]),
                                                                       json.dumps(cov["diagnostics"]["names"])[:600]), flush=True)
    if cov["probes_at_zero"]:
        print("WARNING probes at zero: %s" % cov["probes_at_zero"], flush=True)
    print("faults fired: %s" % json.dumps(cov["fault_fired"]), flush=True)
    print("total %.1fs exit=%d" % (time.time() - t0, rc), flush=True)
    return rc


def do_replay(path):
    rep = json.load(open(path))
    prop, flavour = rep["property"], rep["flavour"]
    ensure_built([flavour])
    tmpdir = os.path.join(BUILD, "tmp")
    os.makedirs(tmpdir, exist_ok=True)
    ppath = os.path.join(tmpdir, "replay_%d.plan" % os.getpid())
    write_plan(ppath, rep["plan"])
    evpath = os.path.join(tmpdir, "replay_%d.events" % os.getpid())
    rc, res, detail, err = run_plan(flavour, ppath, 600, events=evpath)
    got = res.get("class") if res and res.get("status") == "violation" else None
    san = classify_sanitizer(rc, err)
    if got is None and san:
        got = san[1]
    print("replay of %s (flavour %s, seed %s)" % (path, flavour, rep["seed"]))
    for ln in rep["plan"]:
        print("  " + ln)
    if os.path.exists(evpath):
        print(open(evpath).read()[-4000:])
    if got is not None and same_class(got, rep["violation"]["cls"]):
        print("DETAIL " + (detail or err[-3000:]))
        known = match_finding(prop, got, detail, rep["plan"])
        if known:
            print("KNOWN-FINDING: property=%s %s" % (prop, known["what"]))
            return 0
        print("VIOLATION property=%s replay=%s" % (prop, path))
        return 1
    print("not reproduced on this tree (got %s, recorded %s)" % (got, rep["violation"]["cls"]))
    return 0


def main(argv):
    if len(argv) >= 2 and argv[0] == "--replay":
        return do_replay(argv[1])
    if len(argv) >= 1 and argv[0] == "--build":
        fl = argv[1:] or list(FLAVOURS)
        s = ensure_built(fl)
        print("built %s in %.1fs" % (fl, s))
        return 0
    if len(argv) < 2:
        print(__doc__)
        return 2
    tier = os.environ.get("VERIF_TIER") or argv[1]
    if argv[1] in ("quick", "thorough"):
        tier = argv[1]
    return do_check(argv[0], tier)


if __name__ == "__main__":
    sys.exit(main(sys.argv[1:]))
